"""Registry of property checks: which harness decides which property."""

# packages whose non-test sources are rewritten by simify (DESIGN.md 2.1)
WHITELIST = [
    "internal/repository", "internal/repository/index", "internal/repository/pack",
    "internal/restic", "internal/backend", "internal/backend/sema", "internal/backend/cache",
    "internal/backend/retry", "internal/backend/dryrun", "internal/backend/logger", "internal/backend/mem",
    "internal/bloblru", "internal/data", "internal/archiver", "internal/restorer", "internal/checker",
    "internal/fuse", "internal/dump", "internal/walker", "internal/ui/progress", "internal/global",
    "internal/fs", "cmd/restic",
]
T4PKGS = ["internal/repository"]
# packages compiled against the simulated disk instead of package os (simify T8)
T8PKGS = ["internal/backend/local"]

SIM_ASSUME = [
    "real Go toolchain go1.25.10, testing/synctest bubble, GOMAXPROCS=1 per worker process",
    "sync.Mutex/RWMutex of restic replaced by channel-based equivalents with identical admission rules (simify T1)",
    "memory-level data races between park points are not explored",
]

L_REAL = ("real: command functions (runInit/runBackup/runForget/runPrune/runCheck/runUnlock ...), archiver, repository, packer, index, "
          "prune/repack, checker, lock code, sema/retry/logger wrappers, crypto, zstd; simulated: object store, source file system, "
          "clock, randomness, goroutine choice, PID/host")

PROPS = {
    "C09": dict(
        pkg="cmd/restic", test="TestVerifC09", level="fault_enumeration", quick_s=60, thorough_s=900,
        text="histories of complete and crashed backups over changing source trees (leaving unused, duplicate and unreferenced packs), then "
             "forget and prune (separately or combined) with generated options; the prune is crashed after its k-th applied backend mutation "
             "(sampled k, and complete sweeps over every k), cancelled, or given transient errors; after every stop a fresh process checks that "
             "every remaining snapshot restores equal to its source model and that real `check --read-data` reports no error, then a second "
             "prune runs to completion and the oracle is repeated",
        note="prune --unsafe-recover-no-free-space is excluded (documented as unsafe); saves/removes are atomic at a crash; leftover locks of "
             "crashed processes are removed with `restic unlock`; sampling of schedules and histories",
        design_ref="3 / C09",
        rule="one run = configuration x 2-4 backups (a quarter crashed) x forget subset x prune options (max-unused 0/5%/50%/20k/unlimited, "
             "max-repack-size, repack-small, cacheable-only, uncompressed) x fault; sweep runs repeat the prune for every crash point; "
             "distinct = distinct event-log hash among runs with a real scheduling choice or fired fault",
        real_vs_stub=L_REAL,
        assumptions=SIM_ASSUME + ["backend Save/Remove are atomic at a crash"],
    ),
    "C12": dict(
        pkg="internal/repository", test="TestVerifC12", level="exploration", quick_s=45, thorough_s=900,
        text="seeded search over interleavings and timings of 2-3 processes running the real LockRepo / refresh / monitor / unlock / "
             "RemoveStaleLocks code with the real timing constants on a simulated clock: shared and exclusive locks, retries, crashes, "
             "per-process clock offsets, one bounded stall inside a lock operation, backend outages; at every quiescent point no two live "
             "processes may both believe (lock context not cancelled, not unlocked) that they hold conflicting locks",
        note="assumption bounds of the property made concrete: pairwise clock offset <= 6 min and one stall <= 6 min per process, both below "
             "the 7.5 min staleness margin; lock operations run over the connection-limiting wrapper without the retry layer (a 15-minute retry "
             "inside one operation would itself exceed the margin); listings are atomic snapshots",
        design_ref="3 / C12",
        rule="one run = generated plans (start time, shared/exclusive, retry-lock, hold time, work interval, unlock/crash, janitor, stall, outage, "
             "clock offset, host) for 2-3 processes x seeded schedule; distinct = distinct event-log hash among runs with a real scheduling choice or fired fault",
        real_vs_stub="real: lock.go, lock_file.go (newLock, refreshLocks, monitorLockRefresh, refreshStaleLock, RemoveStaleLocks), sema wrapper, Repository; "
                     "simulated: object store, clock (per-process offset), PID/host table, goroutine choice",
        assumptions=SIM_ASSUME + ["pairwise clock offset <= 6 min, one stall <= 6 min inside a lock operation per process, no retry layer under the lock code"],
    ),
    "C13": dict(
        pkg="internal/repository", test="TestVerifC13", level="exploration", quick_s=45, thorough_s=900,
        text="same simulated multi-process lock scenarios as C12; monitors per holder: without faults a lock file younger than the refresh "
             "interval always exists; every repository modification the holder starts happens while its newest lock file cannot yet be judged "
             "stale by any other process within the assumed clock bound (also after failed refreshes, outages, removal by others); the holder "
             "never removes its own lock file while holding unless another one of its own exists; after a fault-free unlock none of its lock files remains",
        note="'stops issuing modifications' is judged at the arrival of non-lock Save/Remove operations at the store; same assumption bounds as C12",
        design_ref="3 / C13",
        rule="one run = generated plans for 2-3 processes x seeded schedule (see C12); distinct = distinct event-log hash among runs with a real scheduling choice or fired fault",
        real_vs_stub="real: lock.go, lock_file.go, sema wrapper, Repository; simulated: object store, clock, PID/host table, goroutine choice",
        assumptions=SIM_ASSUME + ["pairwise clock offset <= 6 min, one stall <= 6 min inside a lock operation per process, no retry layer under the lock code"],
    ),
    "C17": dict(
        pkg="internal/archiver", test="TestVerifC17", level="exploration", quick_s=45, thorough_s=600,
        text="the real fileSaver with a single worker (so that its chunker and read-buffer state is reused) saves a sequence of 1-4 simulated files "
             "(random, periodic and all-zero content; sizes 0, 1, around the 512 KiB minimum chunk size and read buffer, 0.75-3 MiB, rarely 9 MiB of "
             "zeros) whose Read delivers scheduler-chosen short reads of at most 1, 7, 4096, buffer-1, buffer+1 or 3*buffer bytes; the saved chunks "
             "concatenate to the file, every chunk but the last lies within [min, max], the node's content list names the chunks in order, and the "
             "chunk lengths equal those of the chunker library's own streaming Chunker run afresh over the whole content with full reads",
        note="the simulator's part is the read-pattern and worker-reuse independence; shift resistance under edits is input-driven and not claimed here; "
             "the blob saver is a stub that records chunks",
        design_ref="3 / C17",
        rule="one run = polynomial x file sequence x short-read bound x seeded read sizes; distinct = distinct (case, event-log hash)",
        real_vs_stub="real: archiver.fileSaver (saveFile, readNextChunk, buffer pool), chunker.BaseChunker; reference: chunker.Chunker; stub: blob saver; simulated: source file",
        assumptions=SIM_ASSUME,
    ),
    "C19": dict(
        pkg="cmd/restic", test="TestVerifC19", level="exploration", quick_s=60, thorough_s=900,
        text="generated snapshots of regular files (empty, short, all zeros, zeros with islands of data, multi-chunk, files sharing blobs) are restored "
             "by the real runRestore into a directory in which every file is independently missing, shorter, longer, different, identical, "
             "hard-linked to a file outside, or replaced by a symlink (to a victim file outside) or an empty directory, older or newer than the "
             "snapshot's mtime, for --overwrite always / if-changed / if-newer / never and sparse on/off, with the order of pack downloads decided "
             "by the seeded scheduler and in a quarter of the runs transient download errors; after a successful restore every file that the mode "
             "says must be written has exactly the snapshot content and size and nothing was written through a symlink; every file that the mode "
             "says must be left alone is byte-identical to before",
        note="target states and contents are sampled; runs as root on tmpfs; an unsuccessful restore (obstacle that cannot be replaced, exhausted retries) promises nothing",
        design_ref="3 / C19",
        rule="one run = configuration x generated snapshot x per-file target state x overwrite mode x sparse x seeded schedule; distinct = distinct (case, event-log hash)",
        real_vs_stub=L_REAL + "; restore target is a real directory on tmpfs",
        assumptions=SIM_ASSUME,
    ),
    "C21": dict(
        pkg="cmd/restic", test="TestVerifC21", level="fault_enumeration", quick_s=60, thorough_s=900,
        text="the real restorer restores a generated snapshot (same content classes as C19) into an empty directory under the seeded scheduler; then "
             "zero, one or two restored files are damaged at rest: one bit changed at a generated position, truncation at a generated length, or "
             "one byte appended; the real VerifyFiles of the same restorer must fail if and only if some restored file now differs from the "
             "snapshot content in any byte or in length",
        note="damage positions are sampled, not enumerated byte by byte",
        design_ref="3 / C21",
        rule="one run = configuration x generated snapshot x sparse x damage set x seeded schedule; distinct = distinct (case, event-log hash)",
        real_vs_stub=L_REAL + "; restore target is a real directory on tmpfs",
        assumptions=SIM_ASSUME,
    ),
    "C51": dict(
        pkg="internal/selfupdate", test="TestVerifC51", level="fault_enumeration", quick_s=30, thorough_s=600,
        text="the real DownloadLatestStableRelease against an in-memory GitHub installed as http.DefaultClient's transport: release JSON, SHA256SUMS, its "
             "detached signature and the bzip2 archive, with zero to two generated tamperings out of: archive bit flip, truncation or swap with "
             "another asset, signature by a foreign key, missing or garbage signature, checksum line adjusted after signing, signed but stale "
             "hash, two entries for the name (first wrong), malformed non-hex entry before the valid one, entry for a different path ending in "
             "the name, HTTP errors, connections broken mid-body, slow API against the timeout on the simulated clock; the binary changes only if "
             "the served checksum file is exactly what the harness key signed and the first entry for the exact file name matches the served "
             "archive, and then equals the decompressed archive; otherwise it is byte-identical to before; success is never reported without an install",
        note="the embedded release key is replaced by a key pair generated in the harness, so the real release key itself is not exercised",
        design_ref="3 / C51",
        rule="one run = 0-2 tamperings/transport faults; distinct = distinct (case, event-log hash)",
        real_vs_stub="real: selfupdate (GitHub client code, GPGVerify with x/crypto/openpgp, findHash, extractToFile); simulated: HTTP transport, clock",
        assumptions=SIM_ASSUME,
    ),
    "C55": dict(
        pkg="cmd/restic", test="TestVerifC55", level="exploration", quick_s=45, thorough_s=600,
        text="the real runBackup over the simulated source file system in which generated entries fail to open, fail with an I/O error after a "
             "generated number of bytes, are directories whose listing fails, turn into a directory between the first look and the open, or vanish "
             "between the directory listing and the open; read concurrency 1-6 and the seeded schedule decide where the failures fall relative to the "
             "archiver's workers; a snapshot is always saved and holds exactly the readable items (compared through the real read path), the "
             "returned error is the incomplete-snapshot status (exit 3) if and only if some item could not be read; vanished items alone give success",
        note="uses the simulated source FS through backupFSTestHook instead of a fault-injecting wrapper around a real directory (deviation from the plan, same seam)",
        design_ref="3 / C55",
        rule="one run = configuration x generated tree x per-entry source fault x read concurrency x seeded schedule; distinct = distinct (case, event-log hash)",
        real_vs_stub=L_REAL,
        assumptions=SIM_ASSUME,
    ),
    "C26": dict(
        pkg="cmd/restic", test="TestVerifC26", level="fault_enumeration", quick_s=45, thorough_s=600,
        text="generated snapshots, optionally one completed rewrite first, then one of tag / rewrite --exclude (--forget or keeping the old one) / "
             "rewrite --new-host repeated with a crash after every one of its applied backend mutations (complete sweep of the crash points of "
             "that run); at every crash point the old snapshot or a successor exists, every successor names the first snapshot's ID as original, "
             "tag and metadata rewrites keep the tree, every snapshot file present is complete per the store decoder and restores to what the "
             "model (source tree minus excluded names) says",
        note="crash points are enumerated completely per run, schedules and inputs are sampled; repair snapshots is exercised by C34",
        design_ref="3 / C26",
        rule="one run = configuration x generated snapshot(s) x optional prior rewrite x operation kind, swept over every crash point k; "
             "distinct = distinct event-log hash (every run sweeps >=3 crash points)",
        real_vs_stub=L_REAL,
        assumptions=SIM_ASSUME + ["backend Save/Remove are atomic at a crash"],
    ),
    "C29": dict(
        pkg="cmd/restic", test="TestVerifC29", level="fault_enumeration", quick_s=45, thorough_s=600,
        text="generated histories of key add / key passwd / key remove (also of the key in use) with several passwords, earlier operations "
             "optionally crashed or given transient errors, the last operation repeated with a crash after every one of its applied backend "
             "mutations; at every point every password of the universe (all ever used plus a wrong one) is tried through the real "
             "OpenRepository/SearchKey path, with and without --key-hint, and must open the repository iff a key file created with it is present; "
             "every successful open must yield the initial master key; at least one working key always exists; removing the key in use is refused",
        note="a key file that became durable before a crash counts with the password it was created for; fewer than 20 keys; crash points of the "
             "last operation enumerated completely, histories sampled",
        design_ref="3 / C29",
        rule="one run = configuration x history of 1-4 key operations x faults, last operation swept over every crash point; distinct = distinct event-log hash",
        real_vs_stub=L_REAL,
        assumptions=SIM_ASSUME + ["backend Save/Remove are atomic at a crash; torn files only after an error-returning Save on non-atomic backends"],
    ),
    "C31": dict(
        pkg="cmd/restic", test="TestVerifC31", level="fault_enumeration", quick_s=45, thorough_s=600,
        text="format-1 repositories with generated snapshots; `migrate upgrade_repo_v2` repeated with a crash after every applied backend mutation "
             "(complete sweep) and with a failure before or after the effect of every Save/Remove of the config file, once, three times or for good, "
             "on backends with and without atomic replace; afterwards the repository must have a config, open, restore every snapshot equal to its "
             "source model, pass `check --read-data`, and accept a further backup",
        note="one documented limitation is recorded as a known finding (non-atomic backends remove the config before saving the new one)",
        design_ref="3 / C31",
        rule="one run = configuration x generated snapshots x (every crash point + sampled failure positions/kinds/repeat counts in quick, all in thorough); "
             "distinct = distinct event-log hash",
        real_vs_stub=L_REAL,
        assumptions=SIM_ASSUME + ["backend Save/Remove are atomic at a crash"],
    ),
    "C32": dict(
        pkg="cmd/restic", test="TestVerifC32", level="fault_enumeration", quick_s=60, thorough_s=900,
        text="a source repository with 1-4 overlapping or unrelated snapshots and a destination with its own chunker polynomial and format version, "
             "optionally holding an earlier copy of a subset; `copy` is crashed after its k-th applied mutation of the destination (sampled k and "
             "complete sweeps), slowed down by stalls (so that batches split by the one-minute rule) or given transient errors; after every stop "
             "every snapshot file in the destination is complete per the independent decoder and restores, through the real read path, to the source "
             "model of its original; after completion every source snapshot has a copy with the same tree ID and a second copy saves no pack or snapshot",
        note="crash points of the destination writer are swept completely in sweep runs; source repository is only read",
        design_ref="3 / C32",
        rule="one run = configuration x source history x destination version x earlier partial copy x fault; distinct = distinct event-log hash among runs "
             "with a real scheduling choice or fired fault",
        real_vs_stub=L_REAL,
        assumptions=SIM_ASSUME + ["backend Save/Remove are atomic at a crash"],
    ),
    "C14": dict(
        pkg="cmd/restic", test="TestVerifC14", level="exploration", quick_s=60, thorough_s=900,
        text="one or two concurrent backups (real runBackup) and one to three concurrent reader processes running the real ls, find, dump, restore, "
             "diff and check --no-lock commands over one repository, interleaved by the seeded scheduler at backend-operation (in a quarter of the "
             "runs also mutex) granularity; at the instant every snapshot file is saved the store is decoded independently and all blobs the "
             "snapshot needs must already be in durable index entries with durable packs; no reader may fail, and the final state passes check",
        note="listings are read-after-write consistent (atomic snapshots of the store); a quarter of the runs adds transient errors that the retry "
             "layer absorbs; mount is not run (the kernel FUSE transport is outside the simulator); copy as a source reader is exercised by C32",
        design_ref="3 / C14",
        rule="one run = configuration x generated trees x 1-2 writers x 1-3 readers with 1-3 commands each x start offsets x seeded schedule; "
             "distinct = distinct event-log hash among runs with a real scheduling choice",
        real_vs_stub=L_REAL + "; restore targets are real directories",
        assumptions=SIM_ASSUME + ["listings are read-after-write consistent"],
    ),
    "C16": dict(
        pkg="cmd/restic", test="TestVerifC16", level="exploration", quick_s=45, thorough_s=600,
        text="source trees with 2-24 files drawn from 1-4 distinct contents and up to 4 identical subdirectories, backed up by the real runBackup with "
             "read concurrency 1-8 and 1-8 virtual cores; in three quarters of the runs every mutex acquisition is a scheduling point, so the order in "
             "which concurrent savers register a pending blob is decided by the seeded scheduler; the store is decoded independently: after the backup "
             "every blob occurs exactly once in the uploaded packs and there are no more data blobs than distinct contents; a second backup with the "
             "parent and a third with --force of the unchanged source add no blob",
        note="duplicates across chunk boundaries inside large files are input-driven and only sampled by the generator",
        design_ref="3 / C16",
        rule="one run = configuration x generated duplicate-heavy tree x read concurrency x seeded schedule; distinct = distinct event-log hash among "
             "runs with a real scheduling choice",
        real_vs_stub=L_REAL,
        assumptions=SIM_ASSUME,
    ),
    "C06": dict(
        pkg="internal/repository/pack", test="TestVerifC06", level="fault_enumeration", quick_s=30, thorough_s=600,
        text="packs written by the real Packer for generated sequences of 1-40 data/tree blobs, compressed or not, with counts around the 15-entry "
             "eager-read boundary and in rare runs exactly at the header-entry limit and one below; pack.List reads them through backend.ReaderAt "
             "over the simulated store with read errors, partial and corrupted reads, and after at-rest damage: truncation at a generated length, "
             "extension with zeros or random bytes, a bit flipped in the length field or in the encrypted header, an arbitrary length value, a "
             "removed first byte; an intact pack lists exactly what was written (types, offsets, lengths, uncompressed lengths, header size); a "
             "damaged pack or corrupted read yields an error, never a panic and never a listing that differs from the truth",
        note="only the storage-fault half is the simulator's; boundary sequences are generator input; blob ciphertexts are dummies (List does not decrypt blobs)",
        design_ref="3 / C06",
        rule="one run = generated blob sequence x damage kind/position x read faults; distinct = distinct (case, event-log hash)",
        real_vs_stub="real: pack.Packer, pack.List, readHeader/readRecords, backend.ReaderAt; simulated: object store with faulty reads",
        assumptions=SIM_ASSUME,
    ),
    "C08": dict(
        pkg="internal/repository", test="TestVerifC08", level="exploration", quick_s=45, thorough_s=600,
        text="histories of 3-9 steps that add index files (1-3 packs x 1-4 blobs, blobs recurring in other packs, exact duplicate entries in several "
             "files), supersede two files by their union, delete files, and run incremental loads into one long-lived MasterIndex with 1-6 "
             "connections and 1-8 virtual cores, the completion order of the parallel file loads decided by the seeded scheduler; in a quarter of the "
             "loads an index file disappears while the load is in progress; after every successful load the lookups of every blob ever mentioned "
             "equal the model multimap of the index files in the store (before or after the disappearance) and equal a fresh load; a failed load "
             "is accepted only when a file disappeared",
        note="encode/decode fidelity at 32-bit limits is input-driven and not part of this check",
        design_ref="3 / C08",
        rule="one run = generated history x connections/cores x seeded schedule; distinct = distinct event-log hash among runs with a real scheduling choice or fired fault",
        real_vs_stub="real: MasterIndex (Load, incremental load, MergeFinalIndexes), index.Index, Repository.LoadIndex/LoadUnpacked, crypto; simulated: object store",
        assumptions=SIM_ASSUME,
    ),
    "C10": dict(
        pkg="cmd/restic", test="TestVerifC10", level="exploration", quick_s=60, thorough_s=900,
        text="histories of 2-5 backups of changing trees, a third of them crashed at a tape-chosen mutation (leaving unreferenced packs), optional "
             "`repair index` after a crash (indexing orphaned packs, which later yields duplicates), forgotten snapshots and optionally a deleted "
             "pack holding only unused blobs; then a scheduled, fault-free `prune --max-unused 0`. An independent decoder of the stored bytes gives "
             "the ground truth: used/duplicate/unused blob counts and byte sums and unreferenced packs before the prune must equal the reported "
             "statistics; afterwards the index names exactly the used blobs, each once, every pack is indexed, every entry matches the pack, and the "
             "announced remaining/removed totals equal what is there",
        note="the simulator contributes the histories (interrupted operations are the only way to reach duplicate/unindexed states) and the repack "
             "schedule; byte totals after repacking are compared only without compression; mixed packs are not generated",
        design_ref="3 / C10",
        rule="one run = configuration x history (crashed backups, repair index, forget, deleted unneeded pack) x seeded schedule of the prune; "
             "distinct = distinct event-log hash among runs with a real scheduling choice or fired fault",
        real_vs_stub=L_REAL,
        assumptions=SIM_ASSUME,
    ),
    "C03": dict(
        pkg="cmd/restic", test="TestVerifC03", level="fault_enumeration", quick_s=60, thorough_s=900,
        text="small generated repositories (1-3 snapshots over changing trees, all formats/compression/pack sizes) get one to three at-rest damages: a "
             "stored file is deleted, truncated at a generated position, extended, or has one bit flipped at a position stratified over nonce, "
             "ciphertext and MAC of a blob, the pack header, the header length field, or nonce/ciphertext/MAC of index, snapshot and config files "
             "and key files; an independent decoder of the intact remainder decides whether a snapshot depends on the damage (snapshot no longer "
             "fully restorable, snapshot or index file undecodable); then the real `check --read-data` must report an error, and reading every "
             "snapshot through the real read path must either fail or give exactly the original content",
        note="one-directional on purpose: damage nothing depends on may or may not be reported; damage sites are sampled (stratified), not "
             "enumerated byte by byte",
        design_ref="3 / C03",
        rule="one run = generated repository x 1-3 damages (file x kind x position); distinct = distinct event-log hash among runs with a fired fault",
        real_vs_stub=L_REAL,
        assumptions=SIM_ASSUME,
    ),
    "C04": dict(
        pkg="cmd/restic", test="TestVerifC04", level="exploration", quick_s=60, thorough_s=900,
        text="a monitor inside the simulated store inspects every file at the instant it is saved (also files deleted again later) during generated "
             "histories of backups, forget, prune with repacking, tag, rewrite, key add/passwd and repair index, with interrupted operations and all "
             "saver/uploader schedules: the 16-byte nonce of every unpacked file, every blob and header of every pack and every key's data must "
             "never repeat within the repository, and none of the 24-character high-entropy markers planted in file contents and file names may "
             "occur in any stored byte string (key files' plaintext metadata excepted)",
        note="nonces come from a seeded stream substituted for crypto/rand, so a repeat can only come from reuse in restic's code; markers detect "
             "verbatim plaintext only (also inside compressible data, since high-entropy markers survive compression verbatim only if stored raw)",
        design_ref="3 / C04",
        rule="one run = configuration x history of 2-8 operations x fault per operation x seeded schedule; distinct = distinct event-log hash among "
             "runs with a real scheduling choice or fired fault",
        real_vs_stub=L_REAL,
        assumptions=SIM_ASSUME + ["crypto/rand is replaced by a seeded stream; the quality of the real random source is not examined"],
    ),
    "C01": dict(
        pkg="cmd/restic", test="TestVerifC01", level="exploration", quick_s=60, thorough_s=900,
        text="generated source trees (non-UTF-8, quote, backslash, control-character and U+2028 names, empty, sparse and multi-chunk files, symlinks "
             "with non-UTF-8 targets, fifos, block and character devices, hard-link groups, xattrs, pre-epoch and far-future nanosecond mtimes, setuid/"
             "setgid/sticky modes, owners) are backed up by the real runBackup from the simulated source FS and restored by the real runRestore into "
             "a scratch directory on tmpfs, crossed with format 1/2, compression, pack size, connections, read concurrency 1-8, 1-8 virtual cores and "
             "the seeded schedule of savers, pack uploads and pack downloads; a third of the runs adds transient errors that the retry layer absorbs; "
             "every restored entry is compared with the model: name, type, content, link target, device number, mode bits, mtime, owner, xattrs, hard-link grouping",
        note="input breadth comes from the generator (sampled); the simulator contributes the schedule x configuration cross product; pack sizes "
             "16 KiB-4 MiB through a knob instead of 4-128 MiB; runs as root; xattr comparison only if the scratch file system supports user xattrs (recorded)",
        design_ref="3 / C01",
        rule="one run = configuration x generated rich tree x read concurrency x seeded schedule (x transient faults); distinct = distinct event-log "
             "hash among runs with a real scheduling choice or fired fault",
        real_vs_stub=L_REAL + "; restore target is a real directory on tmpfs written by the real restorer",
        assumptions=SIM_ASSUME,
    ),
    "C41": dict(
        pkg="cmd/restic", test="TestVerifC41", level="exploration", quick_s=60, thorough_s=900,
        text="schedule independence of the tree encoding: the same generated rich source tree is backed up into three repositories that share the "
             "chunker parameters, each under a different seeded schedule, virtual core count, read concurrency and source-read yield setting; the root "
             "tree IDs and the sets of tree blobs must be identical, every tree blob decoded independently has its entries strictly sorted by name, "
             "and every node decodes unchanged (name and link-target bytes, type, mode, times, owner, device, xattrs, content) through the real read path",
        note="decoding fidelity of every node field for adversarial values (unknown JSON keys, NUL bytes, huge values) is input-driven and only sampled "
             "by the generator; that part is not what the simulator adds",
        design_ref="3 / C41",
        rule="one run = configuration x generated rich tree x three backups under different schedules/concurrency; distinct = distinct event-log hash",
        real_vs_stub=L_REAL,
        assumptions=SIM_ASSUME,
    ),
    "C15": dict(
        pkg="cmd/restic", test="TestVerifC15", level="exploration", quick_s=60, thorough_s=900,
        text="generated histories of 2-8 operations over backup, forget, prune, forget --prune, tag, rewrite --exclude, key add/passwd and repair "
             "index, each optionally crashed at a tape-chosen backend mutation, cancelled or given transient errors; the real `check --read-data` "
             "must report no error after every interrupted operation and at the end, and every snapshot the model expects restores equal",
        note="histories are sampled; crashed processes' locks are removed with `restic unlock`; copy/migrate/repair packs are covered by their own checks",
        design_ref="3 / C15",
        rule="one run = configuration x history of 2-8 operations x fault per operation x seeded schedule; distinct = distinct event-log hash "
             "among runs with a real scheduling choice or fired fault",
        real_vs_stub=L_REAL,
        assumptions=SIM_ASSUME + ["backend Save/Remove are atomic at a crash"],
    ),
    "C11": dict(
        pkg="cmd/restic", test="TestVerifC11", level="fault_enumeration", quick_s=60, thorough_s=900,
        text="histories of 0-2 complete backups followed by a target backup that is crashed after its k-th applied backend mutation (sampled k, "
             "and complete sweeps over every k of a run), cancelled at its k-th mutation, or given transient/permanent backend errors; after every "
             "stop a fresh process judges the surviving store: every snapshot file present is complete per an independent store decoder, earlier "
             "snapshots restore equal to their source model through the real read path, real `check --read-data` reports no error, and a "
             "fault-free backup and prune succeed afterwards",
        note="saves are all-or-nothing at a crash (restic's stated backend contract); a crashed process's lock is removed with `restic unlock` "
             "before judging; sampling of schedules, crash points swept completely only in sweep runs",
        design_ref="3 / C11",
        rule="one run = generated configuration (format 1/2, compression, pack size 16KiB-4MiB, connections, atomic replace, index-full threshold, "
             "virtual cores, mutex/fs yields) x generated source tree x history x fault kind x seeded schedule; sweep runs repeat the target backup "
             "for every crash point k; distinct = distinct event-log hash among runs with a real scheduling choice or fired fault",
        real_vs_stub=L_REAL,
        assumptions=SIM_ASSUME + ["backend Save is atomic at a crash (design.rst); torn files only after an error-returning Save on non-atomic backends"],
    ),
    "C02": dict(
        pkg="internal/repository", test="TestVerifC02", level="exploration", quick_s=45, thorough_s=600,
        text="save side: a monitor inside the simulated store checks at every save that the file name is the SHA-256 of the stored bytes (config "
             "excepted) and an independent decoder checks that every blob in every pack hashes to its ID, including the all-zero minimum-size chunk "
             "whose hash restic takes from a shortcut; read side: Load delivers bit-flipped, truncated or misdirected (another file's or an other "
             "range's) bytes, once, a few times or on every read, with and without the real local cache; LoadUnpacked, LoadRaw, LoadBlob, "
             "LoadBlobsFromPack and ListPackHandles return exactly the content saved under the requested ID (the true pack listing) or an error, "
             "and never fail without a corrupted read",
        note="corruption is injected in the bytes the backend delivers; at-rest corruption and its reporting by check is C03",
        design_ref="3 / C02",
        rule="one run = format x compression x cache on/off x corruption rate/budget x 3-12 generated load operations; distinct = distinct event-log "
             "hash among runs with a fired fault",
        real_vs_stub="real: Repository load paths, index, pack.List, crypto, zstd, cache backend; simulated: object store with corrupting reads",
        assumptions=SIM_ASSUME,
    ),
    "C33": dict(
        pkg="cmd/restic", test="TestVerifC33", level="fault_enumeration", quick_s=60, thorough_s=900,
        text="histories of complete and crashed backups and optionally a crashed earlier repair (overlapping index files), then at-rest damage "
             "(index files deleted, bit-flipped or truncated; packs deleted, truncated or with a damaged header/length field), then the real "
             "`repair index` with and without --read-all-packs, scheduled and in a quarter of the runs with transient read/list errors; an independent "
             "decoder lists every pack whose header is readable; the durable index afterwards contains exactly those blobs at exactly their "
             "offsets and lengths and nothing for missing or unreadable packs; a monitor inside the store sees that no pack file is removed",
        note="without --read-all-packs restic trusts existing decodable index entries of packs whose size matches; the generator does not forge "
             "decodable-but-wrong index entries",
        design_ref="3 / C33",
        rule="one run = configuration x history x damage set x read-all-packs x faults; distinct = distinct (case, event-log hash)",
        real_vs_stub=L_REAL,
        assumptions=SIM_ASSUME,
    ),
    "C34": dict(
        pkg="cmd/restic", test="TestVerifC34", level="fault_enumeration", quick_s=60, thorough_s=900,
        text="generated repositories; one or two packs are damaged at rest (a bit flipped inside a blob, truncation at a generated position, "
             "damage inside the header or its length field); the real `repair packs <ids>` runs under the seeded scheduler, in a quarter of the runs "
             "crashed at a sampled mutation and re-run after `repair index`; a monitor inside the store, at the instant a damaged pack is removed, "
             "requires every blob that the independent decoder could still read from the damaged packs to be available from another uploaded and "
             "indexed pack; afterwards `repair snapshots --forget` runs, the real `check --read-data` must pass, and every file whose blobs and "
             "directories are all still available has an unchanged content list in the repaired snapshot",
        note="corruption sites are sampled (stratified by kind), not enumerated; the file comparison uses the decoder's view of the trees",
        design_ref="3 / C34",
        rule="one run = configuration x generated repository x 1-2 damaged packs x (crash point); distinct = distinct (case, event-log hash)",
        real_vs_stub=L_REAL,
        assumptions=SIM_ASSUME,
    ),
    "C35": dict(
        pkg="internal/backend/retry", test="TestVerifC35", level="fault_enumeration", quick_s=30, thorough_s=600,
        text="the real retry backend with its real back-off on the simulated clock (15-minute budget, both settings of the backend-error-redesign "
             "feature flag, with and without flaky-error tolerance) over the simulated store on which every attempt may fail before the effect, "
             "fail after the effect, leave a torn file (non-atomic stores), deliver part of the data, fail a listing midway or report an entry twice, "
             "be delayed, within a fault budget of 0-8 or without end; per operation: a nil result implies exactly the error-free result (stored "
             "bytes, bytes seen by the final consumer call, listing set, stat size, file gone), a failed Save leaves no partial file under the final "
             "name, listings report each name at most once, permanent errors are attempted once (five times with flaky errors), errors only with faults",
        note="fault sequences are sampled from the tape per attempt, not enumerated; cancellation is not injected here",
        design_ref="3 / C35",
        rule="one run = backend properties x feature flag x fault rate/budget x 1-6 operations (save/load/list/remove/stat/load of a missing file); "
             "distinct = distinct event-log hash among runs with a fired fault",
        real_vs_stub="real: retry.Backend, cenkalti/backoff; simulated: wrapped store, clock",
        assumptions=SIM_ASSUME,
    ),
    "C36": dict(
        pkg="internal/backend/local", test="TestVerifC36", level="fault_enumeration", quick_s=45, thorough_s=900,
        text="the real local backend (Save/List/Load/Stat/Create/Open) compiled against a simulated disk instead of package os (simify T8): 1-3 "
             "savers store packs, indexes, snapshots, locks, keys and the config (1-1500 bytes, written in one or several chunks, retried on "
             "failure, optionally over an existing file or into missing directories) under the seeded scheduler, optionally next to a reader "
             "that lists and loads while they run; every file system call is a scheduling point, may fail (ENOSPC/EIO/EACCES/EDQUOT/EMFILE/"
             "EINTR, short writes) and may be preceded by a crash image in which an arbitrary subset of the not yet fsynced directory operations "
             "(create, rename, unlink, mkdir) and data writes (any subset, last one torn at a block boundary, zero-filled preallocation) "
             "persisted; on every image, at the end of the run, and in every live read, each listed entry whose name is a valid ID (or the config) must "
             "load completely and equal a content that was passed to Save under that name, and nothing that was never saved may be listed under an ID name",
        note="the persistence model is weaker than ext4/xfs (any subset instead of ordered journal commits); "
             "the design's strace-based variant was replaced by this rewrite-based one, which needs no ptrace and is replayable",
        design_ref="3 / C36",
        rule="one run = one plan x schedule x faults x up to 9 crash images; distinct = distinct (case, event-log hash)",
        real_vs_stub="real: backend/local (Save, List, Load, Stat, Create, Open, fsyncDir, setFileReadonly), backend/layout, backend/util; simulated: "
                     "the file system (package crashdisk standing in for package os and fileio.PreallocateFile)",
        assumptions=SIM_ASSUME + ["fsync of a file makes its data durable; fsync of a directory makes its entries durable; a rename is atomic"],
    ),
    "C37": dict(
        pkg="internal/backend/sema", test="TestVerifC37", level="exploration", quick_s=25, thorough_s=600,
        text="seeded search over interleavings of concurrent Save/Load/Stat/Remove calls of all file types with Freeze/Unfreeze through the real "
             "connection-limiting wrapper; monitors inside the wrapped store check the in-flight limit and the freeze gate at every arrival and "
             "that lock-file operations are never blocked at any quiescent point",
        note="real sema wrapper with its mutex replaced by an equivalent schedulable mutex; wrapped store simulated; sampling, not exhaustive",
        design_ref="3 / C37",
        rule="one run = one seeded interleaving of 1-7 clients x 1-5 Save/Load/Stat/Remove calls of all file types through the real "
             "connection-limiting wrapper (1-4 connections) with 0-3 Freeze/Unfreeze cycles of a controller; monitors in the wrapped store "
             "see every arrival; distinct = distinct event-log hash among runs with >=1 real scheduling choice",
        real_vs_stub="real: sema.connectionLimitedBackend, semaphore; simulated: wrapped object store, goroutine choice",
        assumptions=SIM_ASSUME + ["an operation 'starts' when it arrives at the wrapped backend; operations that passed the freeze gate before Freeze returned count as in flight"],
    ),
    "C38": dict(
        pkg="internal/repository", test="TestVerifC38", level="exploration", quick_s=45, thorough_s=600,
        text="a real cache directory and the real caching backend over the simulated store, cold or pre-warmed; 1-4 reader goroutines load "
             "snapshot files, index files, tree blobs (cached packs) and data blobs (uncached packs) through LoadUnpacked/LoadBlob while a gremlin "
             "task at scheduling points deletes, truncates, bit-flips, swaps, extends or empties cache files, clears a cache subdirectory or "
             "deletes a file from the repository; every load returns exactly the original content or fails; without interference nothing fails and "
             "index/snapshot files are downloaded once even under concurrent loads; after a final undisturbed round of loads every cache file "
             "equals the repository's bytes (corrupted copies were replaced)",
        note="a second restic process sharing the cache directory is represented by the gremlin's file operations; interference happens at "
             "scheduling points, not in the middle of a read system call",
        design_ref="3 / C38",
        rule="one run = cold/warm cache x readers x load plans x gremlin actions x seeded schedule; distinct = distinct event-log hash among runs "
             "with a real scheduling choice or fired fault",
        real_vs_stub="real: cache.Cache, cacheBackend, Repository.LoadUnpacked/LoadRaw/LoadBlob, index; real cache directory; simulated: object store",
        assumptions=SIM_ASSUME,
    ),
    "C42": dict(
        pkg="internal/data", test="TestVerifC42", level="exploration", quick_s=30, thorough_s=600,
        text="generated DAGs of 1-25 tree blobs with heavy sharing of subtrees (also between several roots), files referencing data blobs from a small "
             "pool, optionally one tree reported as larger than 50 MiB (dedicated worker) and one missing or truncated tree; FindUsedBlobs and "
             "StreamTrees run on a simulated loader with 1-6 connections and 1-8 virtual cores, every tree load being a scheduling point so that "
             "the completion order of the loader workers is decided by the seeded scheduler; on an intact DAG the reported trees and data blobs "
             "equal the model's reachable sets, every tree is loaded and processed exactly once, nothing unreachable is loaded; with a damaged "
             "reachable tree an error is returned",
        note="filterTrees contains a select with two ready cases that the Go runtime resolves randomly; the oracles do not depend on that choice "
             "(replay exactness of this harness is therefore measured, not guaranteed)",
        design_ref="3 / C42",
        rule="one run = generated DAG x roots x damage x connections/cores x seeded schedule; distinct = distinct event-log hash among runs with a real scheduling choice",
        real_vs_stub="real: data.StreamTrees, filterTrees, loadTreeWorker, FindUsedBlobs, tree decoder; stub: blob loader",
        assumptions=SIM_ASSUME,
    ),
    "C43": dict(
        pkg="internal/repository", test="TestVerifC43", level="exploration", quick_s=45, thorough_s=600,
        text="packs written by the real packer from 1-14 generated blobs (1 byte to 1.2 MiB, so that unrequested gaps exceed the 1 MiB skip limit; in some "
             "runs three 13 MiB blobs so that the 32 MiB range limit splits the request), a second copy of a subset in another pack; single bits "
             "are flipped at rest inside blobs of the first and/or second copy; LoadBlobsFromPack is called for a generated subset in generated order "
             "with download errors before the data, inside the data (partial read), a few or without end; every requested blob gets exactly one "
             "callback, with the exact plaintext or an error; an error is accepted only if every copy is damaged or downloads failed; nothing unrequested is delivered",
        note="real streamPack/streamPackPart/packBlobIterator/LoadBlob over the simulated store without retry layer; subsets and fault positions are sampled",
        design_ref="3 / C43",
        rule="one run = generated blob sizes x duplicate subset x at-rest damage x requested subset/order x download fault mode; distinct = distinct "
             "event-log hash among runs with a real scheduling choice or fired fault",
        real_vs_stub="real: Repository.LoadBlobsFromPack, streamPack, LoadBlob, index, packer, crypto, zstd; simulated: object store",
        assumptions=SIM_ASSUME,
    ),
    "C44": dict(
        pkg="internal/repository", test="TestVerifC44", level="exploration", quick_s=40, thorough_s=600,
        text="seeded search over schedules of concurrent blob savers, packer selection, pack uploads and index saves of the real Repository over a "
             "simulated store (with and without transient Save errors); the store is decoded independently afterwards and every accepted blob must "
             "be in exactly one uploaded pack with a matching durable index entry",
        note="real repository/packer/index/crypto code with sync.Mutex replaced by an equivalent schedulable mutex; object store simulated; "
             "header-entry limit checked but not reached; sampling, not exhaustive",
        design_ref="3 / C44",
        rule="one run = one seeded schedule of 1-4 submitters saving 1-40 generated blobs (1 byte .. 3x pack size, both types, duplicates) "
             "through WithBlobUploader with pack size 2KiB-256KiB, 1-5 connections, 1-8 virtual cores, index-full threshold 3/10/40/real, "
             "format 1/2, compression off/auto/max, a third of the runs with transient Save errors; distinct = distinct event-log hash "
             "among runs with >=1 real scheduling choice or fired fault",
        real_vs_stub="real: Repository, packerManager, packerUploader, pack.Packer, MasterIndex, crypto, zstd, errgroup; simulated: object store, goroutine choice, crypto/rand",
        assumptions=SIM_ASSUME + ["the header-entry limit (about 409k entries) is checked on every pack but not reached by the generated workloads"],
    ),
    "C45": dict(
        pkg="internal/dump", test="TestVerifC45", level="exploration", quick_s=30, thorough_s=600,
        text="generated trees of up to 25 nodes (files of 0-5 blobs with blobs repeated inside and across files, empty blobs, symlinks, fifos, "
             "devices, sockets, nested directories, setuid and other permission bits) encoded as real tree blobs and served by a simulated loader "
             "with 1-5 connections whose blob loads complete in the order the seeded scheduler decides; DumpTree writes tar or zip, the output is "
             "parsed with the standard library: exactly one entry per file, directory and symlink in tree (pre-)order with the right type, "
             "permission bits, link target and content, none for other node types; WriteNode of a file writes exactly its content; when a blob "
             "load is made to fail the dump must return an error",
        note="real dump, walker, bloblru, tree decoder; blob loader stubbed",
        design_ref="3 / C45",
        rule="one run = generated tree x format x connections x seeded schedule (x one failing blob); distinct = distinct event-log hash among runs with a real scheduling choice or fired fault",
        real_vs_stub="real: dump.Dumper (tar, zip, writeNode), walker.Walk, bloblru.Cache, data tree decoder; stub: blob loader",
        assumptions=SIM_ASSUME,
    ),
    "C46": dict(
        pkg="internal/fuse", test="TestVerifC46", level="exploration", quick_s=30, thorough_s=600,
        text="the real fuse file / openFile code (Open, Read) over a stub repository: files of 0-7 blobs (0, 1, 5, 100, 4096, 70000 bytes, repeated "
             "blobs, empty blobs, optionally a wrong recorded size), a blob cache of 200 bytes to 64 MiB so that entries are evicted and reloaded, "
             "1-4 concurrent readers each issuing 1-6 reads whose offsets lie within two bytes of every blob boundary or past the end and whose "
             "sizes range from 0 to 128 KiB; blob loads complete in the order the seeded scheduler decides; every read returns exactly the "
             "requested range of the file's content (empty past the end)",
        note="the kernel FUSE transport is not involved; blob loader stubbed",
        design_ref="3 / C46",
        rule="one run = generated blob layout x cache size x read plans x seeded schedule; distinct = distinct event-log hash among runs with a real scheduling choice",
        real_vs_stub="real: fuse.file, fuse.openFile, bloblru.Cache; stub: repository (LookupBlobSize, LoadBlob)",
        assumptions=SIM_ASSUME,
    ),
    "C47": dict(
        pkg="internal/bloblru", test="TestVerifC47", level="exploration", quick_s=25, thorough_s=600,
        text="seeded search over schedules of concurrent GetOrCompute calls (every mutex acquisition and every computation is a scheduling "
             "point), accounting invariant checked at every quiescent point, results checked per call",
        note="real bloblru.Cache and simplelru; goroutine choice and compute callback simulated; sampling, not exhaustive",
        design_ref="3 / C47",
        rule="one run = one seeded schedule of 2-6 clients x 1-6 GetOrCompute calls over 1-5 IDs on a cache sized between "
             "'nothing fits' and 'everything fits', computations parked and failed from the tape; distinct = distinct event-log "
             "hash among runs in which the scheduler had at least one choice between >=2 parked goroutines or a fault fired",
        real_vs_stub="real: bloblru.Cache, simplelru; simulated: goroutine choice, compute callback",
        assumptions=SIM_ASSUME,
    ),
}


TECHNIQUE = "deterministic simulation with fault injection (seeded search over schedules and faults, replayable choice tape)"

# properties not claimed, with the reason (DESIGN.md section 4)
NOT_APPLICABLE = {
    "C05": "Key.Seal/Open/KDF validation are pure functions of byte slices; no schedule, clock, I/O or fault to simulate.",
    "C07": "Save-then-load of an unpacked file is a deterministic encode/decode of payload and repository version; nothing to interleave or fail.",
    "C18": "restore works in phases with barriers, so containment depends only on the snapshot tree and the pre-existing target, not on a schedule or fault.",
    "C20": "which paths restore selects/deletes is a pure function of tree, patterns and target contents.",
    "C22": "ApplyPolicy is a pure function of the snapshot list and policy (it does not read the clock).",
    "C23": "what forget removes is a pure function of snapshots, policy/IDs and flags.",
    "C24": "filters, grouping and 'latest' are pure functions of the snapshot set.",
    "C25": "resulting tag sets are a pure function of old tags and add/remove/set lists (the crash aspect is C26).",
    "C27": "the rewritten tree is a pure function of tree and patterns.",
    "C28": "glob matching is a pure function of pattern and path.",
    "C30": "init's refusal is a pure function of which files pre-exist and of the requested version/polynomial.",
    "C39": "'nothing is written' is a pure function of command and repository state; no schedule or fault can matter.",
    "C40": "the tree stored by an incremental backup is a pure function of the sequence of source states.",
    "C48": "set length/enumeration is a pure function of index contents and the operation sequence.",
    "C49": "parsers of durations, sizes, counts, options: pure functions of a string.",
    "C50": "password stripping: pure function of a location string.",
    "C52": "bucket partition: pure function of pack IDs and n/t (the random subset holds for every RNG outcome).",
    "C53": "diff output: pure function of two trees.",
    "C54": "restore-size statistics: pure function of the trees.",
    "C56": "hash-table behaviour: pure function of the insertion sequence (single-threaded structure).",
    "C57": "prefix resolution: pure function of the ID set and prefix.",
}

# extensions added after the seeding waves (appended to the descriptions above)
_EXTRA = {
    "C02": "the real retry layer under the reader with downloads that break off or fail; misdirected ranges inside one pack (another blob of the same stored length); one damaged download followed by a backend that is down",
    "C03": "a needed pack that vanishes after the n-th download of the running check",
    "C06": "packs built by merging two packers whose data source may end early",
    "C08": "index files with 20-300 entries; an index file superseded (new file stored, old removed) between listing and load",
    "C09": "every Remove of one snapshot fails for good during forget --prune; histories with indexed duplicates (crashed backup, same data again, repair index) and a redundant pack that goes missing",
    "C10": "a targeted history that puts a used blob into two partly used packs next to other used blobs",
    "C12": "standby of a whole process (tickers, monotonic clock, goroutines) beyond the stale timeout with a contender removing the stale lock; processes of different users on one host (EPERM on the liveness probe); outages whose requests hang before they fail",
    "C13": "standby of a whole process; no modification may reach the storage after the lock context was cancelled, nor after the holder's stale lock was removed by another process and the holder is awake",
    "C14": "a reader that opens the repository like `restic mount` and walks the FUSE tree; a writer whose k-th index upload fails for good",
    "C16": "5-14 distinct contents and 20-48 files when the index-full knob is on, so that the in-memory index becomes full while copies still arrive",
    "C17": "reads that return the last bytes together with io.EOF; files that fail mid-read or at Close; two workers with all files submitted at once",
    "C19": "a second hard link outside the target combined with shorter / longer / different content",
    "C21": "all overwrite modes; damage that keeps the modification time; a file that is cut while it is being verified",
    "C26": "an error sweep: the k-th Save/Remove attempt fails once with or without effect, every Save or every Remove of the k-th snapshot file fails",
    "C29": "more than 20 keys with --key-hint; a key switch inside one process whose config load fails; two key holders removing each other's key concurrently",
    "C31": "every subset of the four logical config operations failing for good, on backends with and without atomic replace",
    "C32": "repair index on the destination and a second copy after a crashed copy; a source pack that cannot be downloaded at all",
    "C33": "an index file that cannot be downloaded or cannot be removed at all",
    "C34": "duplicates (crashed backup, same data again, repair index) with damage to both packs of a pair that shares a blob",
    "C36": "a failed fsync drops the dirty data from write-back for good (Linux semantics)",
    "C37": "caller contexts cancelled at scheduler-chosen points; two freezers whose freeze periods queue up",
    "C38": "backend faults including downloads that end early and fail afterwards, with raw loads through the caching backend compared too; a failing Save (and Stat) through the cache; a tree pack removed through the cache with a plain handle",
    "C41": "owner names chosen independently of the numeric IDs and compared after decoding",
    "C42": "up to eleven roots in arbitrary order (roots that are subtrees of other roots); a caller context cancelled after k scheduling points",
    "C43": "download errors that look like request timeouts; the call itself must never fail, what cannot be loaded is reported per blob",
    "C45": "a context cancelled after k scheduling points while a multi-blob file is written",
    "C46": "a stub loader that decodes into a supplied buffer like the real LoadBlob; an interrupted Open before the readers",
    "C51": "answers that change on the second request for the same URL and a second valid archive (the attacker's)",
    "C55": "directory listings that fail part-way; a file that becomes a symlink between lstat and open",
}
for _k, _v in _EXTRA.items():
    if _k in PROPS:
        PROPS[_k]["text"] = PROPS[_k]["text"].rstrip(". ") + ". Added after the seeding waves: " + _v + "."
