"""Registry of property checks: which harness decides which property."""

# packages whose non-test sources are rewritten by simify (DESIGN.md 2.1)
WHITELIST = [
    "internal/repository", "internal/repository/index", "internal/repository/pack",
    "internal/restic", "internal/backend", "internal/backend/sema", "internal/backend/cache",
    "internal/backend/retry", "internal/backend/dryrun", "internal/backend/logger", "internal/backend/mem",
    "internal/bloblru", "internal/data", "internal/archiver", "internal/restorer", "internal/checker",
    "internal/fuse", "internal/dump", "internal/walker", "internal/ui/progress", "internal/global",
    "internal/fs", "cmd/restic",
]
T4PKGS = ["internal/repository"]

SIM_ASSUME = [
    "real Go toolchain go1.25.10, testing/synctest bubble, GOMAXPROCS=1 per worker process",
    "sync.Mutex/RWMutex of restic replaced by channel-based equivalents with identical admission rules (simify T1)",
    "memory-level data races between park points are not explored",
]

PROPS = {
    "C47": dict(
        pkg="internal/bloblru", test="TestVerifC47", level="exploration", quick_s=25, thorough_s=600,
        rule="one run = one seeded schedule of 2-6 clients x 1-6 GetOrCompute calls over 1-5 IDs on a cache sized between "
             "'nothing fits' and 'everything fits', computations parked and failed from the tape; distinct = distinct event-log "
             "hash among runs in which the scheduler had at least one choice between >=2 parked goroutines or a fault fired",
        real_vs_stub="real: bloblru.Cache, simplelru; simulated: goroutine choice, compute callback",
        assumptions=SIM_ASSUME,
    ),
}
