"""Registry of property checks: which harness decides which property."""

# packages whose non-test sources are rewritten by simify (DESIGN.md 2.1)
WHITELIST = [
    "internal/repository", "internal/repository/index", "internal/repository/pack",
    "internal/restic", "internal/backend", "internal/backend/sema", "internal/backend/cache",
    "internal/backend/retry", "internal/backend/dryrun", "internal/backend/logger", "internal/backend/mem",
    "internal/bloblru", "internal/data", "internal/archiver", "internal/restorer", "internal/checker",
    "internal/fuse", "internal/dump", "internal/walker", "internal/ui/progress", "internal/global",
    "internal/fs", "cmd/restic",
]
T4PKGS = ["internal/repository"]

SIM_ASSUME = [
    "real Go toolchain go1.25.10, testing/synctest bubble, GOMAXPROCS=1 per worker process",
    "sync.Mutex/RWMutex of restic replaced by channel-based equivalents with identical admission rules (simify T1)",
    "memory-level data races between park points are not explored",
]

PROPS = {
    "C44": dict(
        pkg="internal/repository", test="TestVerifC44", level="exploration", quick_s=40, thorough_s=600,
        rule="one run = one seeded schedule of 1-4 submitters saving 1-40 generated blobs (1 byte .. 3x pack size, both types, duplicates) "
             "through WithBlobUploader with pack size 2KiB-256KiB, 1-5 connections, 1-8 virtual cores, index-full threshold 3/10/40/real, "
             "format 1/2, compression off/auto/max, a third of the runs with transient Save errors; distinct = distinct event-log hash "
             "among runs with >=1 real scheduling choice or fired fault",
        real_vs_stub="real: Repository, packerManager, packerUploader, pack.Packer, MasterIndex, crypto, zstd, errgroup; simulated: object store, goroutine choice, crypto/rand",
        assumptions=SIM_ASSUME + ["the header-entry limit (about 409k entries) is checked on every pack but not reached by the generated workloads"],
    ),
    "C47": dict(
        pkg="internal/bloblru", test="TestVerifC47", level="exploration", quick_s=25, thorough_s=600,
        rule="one run = one seeded schedule of 2-6 clients x 1-6 GetOrCompute calls over 1-5 IDs on a cache sized between "
             "'nothing fits' and 'everything fits', computations parked and failed from the tape; distinct = distinct event-log "
             "hash among runs in which the scheduler had at least one choice between >=2 parked goroutines or a fault fired",
        real_vs_stub="real: bloblru.Cache, simplelru; simulated: goroutine choice, compute callback",
        assumptions=SIM_ASSUME,
    ),
}
