#!/bin/bash
# seedrun2.sh <patch.diff> <tier> <property>... : like seedrun.sh but on a scratch worktree of /repo
# (/tmp/repo-seed3) and this scratch copy of /verif, so that /repo and /verif stay untouched.
set -u
patch=$1; tier=$2; shift 2
R=/tmp/repo-seed3
if [ ! -d $R ]; then git -C /repo worktree add --detach $R HEAD -q || exit 2; fi
cd $R || exit 2
git checkout -q --detach $(git -C /repo rev-parse HEAD) 2>/dev/null
git checkout -q -- . ; git clean -fdq
git apply "$patch" || { echo "patch does not apply"; exit 2; }
for p in "$@"; do
  (cd /tmp/vseed3 && VERIF_REPO=$R python3 check.py "$p" "$tier" 2>&1 | grep -v "^KNOWN-FINDING" | tail -4 | cut -c1-600; echo "exit(${p})=${PIPESTATUS[0]}")
done
git checkout -q -- . ; git clean -fdq
