#!/bin/bash
# seedrun.sh <patch.diff> <tier> <property>... : apply a seeded change to /repo, run the checks, undo it.
set -u
patch=$1; tier=$2; shift 2
cd /repo || exit 2
if [ -n "$(git status --porcelain)" ]; then echo "/repo not clean"; exit 2; fi
git apply "$patch" || { echo "patch does not apply"; exit 2; }
for p in "$@"; do
  (cd /verif && python3 check.py "$p" "$tier" 2>&1 | grep -v "^KNOWN-FINDING" | tail -4 | cut -c1-600; echo "exit(${p})=${PIPESTATUS[0]}")
done
git checkout -- . ; git status --porcelain
