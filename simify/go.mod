module simify

go 1.23
