// simify: mechanical, purely syntactic source transformation that makes restic
// schedulable by the simrt deterministic scheduler. See DESIGN.md 2.1.
//
// usage: simify -repo /repo -out /verif/build/gen -overlay /verif/build/overlay.json \
//               -extra /verif/build/extra.json pkgdir...
//
// For every non-test .go file in the given package dirs (relative to -repo) it
// applies:
//   T1 sync.Mutex/RWMutex/Once -> simrt.Mutex/RWMutex/Once
//   T2 go f(x) / g.Go(fn)      -> lineage-named, start-parked goroutines
//   T3 runtime.GOMAXPROCS(0)   -> simrt.NumProcs()
//   T4 (listed pkgs only) time.Now/Since, os.Getpid/Hostname -> simrt.*
//   T8 (listed pkgs only) import "os" -> crashdisk (simulated disk with a persistence model)
// and writes the rewritten copy below -out. The overlay file maps the original
// path to the copy; -extra is a JSON map of additional overlay entries (virtual
// files) merged in. Files that need no change are not overlaid.
package main

import (
	"bytes"
	"encoding/json"
	"flag"
	"fmt"
	"go/ast"
	"go/format"
	"go/parser"
	"go/token"
	"os"
	"path/filepath"
	"sort"
	"strconv"
	"strings"
)

const simrtPath = "github.com/restic/restic/internal/verif/simrt"

type report struct {
	File string   `json:"file"`
	T    []string `json:"transforms"`
}

var t4pkgs = map[string]bool{}

// T8: packages whose "os" import is swapped for the simulated disk.
var diskpkgs = map[string]bool{}

const crashdiskPath = "github.com/restic/restic/internal/verif/crashdisk"
const fileioPath = "github.com/restic/restic/internal/fileio"

// rewriteDisk (T8) points the file's "os" import at package crashdisk and
// routes fileio.PreallocateFile to it as well.
func rewriteDisk(path string, src []byte, pkgName string) ([]byte, []string, error) {
	fset := token.NewFileSet()
	f, err := parser.ParseFile(fset, path, src, parser.ParseComments)
	if err != nil {
		return nil, nil, err
	}
	if f.Name.Name != pkgName {
		return nil, nil, nil
	}
	osName, fileioName := "", ""
	for _, im := range f.Imports {
		p, _ := strconv.Unquote(im.Path.Value)
		switch p {
		case "os":
			osName = "os"
			if im.Name != nil {
				osName = im.Name.Name
			}
			im.Path.Value = strconv.Quote(crashdiskPath)
			im.Name = ast.NewIdent(osName)
		case fileioPath:
			fileioName = "fileio"
			if im.Name != nil {
				fileioName = im.Name.Name
			}
		}
	}
	if osName == "" {
		return nil, nil, nil
	}
	keep := ""
	if fileioName != "" {
		ast.Inspect(f, func(n ast.Node) bool {
			if s, ok := n.(*ast.SelectorExpr); ok {
				if id, ok := s.X.(*ast.Ident); ok && id.Name == fileioName && id.Obj == nil && s.Sel.Name == "PreallocateFile" {
					id.Name = osName
				}
			}
			return true
		})
		keep = "var _ = " + fileioName + ".PreallocateFile\n"
	}
	var buf bytes.Buffer
	if err := format.Node(&buf, fset, f); err != nil {
		return nil, nil, err
	}
	buf.WriteString("\n// simify keep-alives\n" + keep)
	if _, err := parser.ParseFile(token.NewFileSet(), path, buf.Bytes(), 0); err != nil {
		return nil, nil, fmt.Errorf("rewritten file does not parse: %w", err)
	}
	return buf.Bytes(), []string{"T8"}, nil
}

func main() {
	repo := flag.String("repo", "/repo", "repository root")
	out := flag.String("out", "", "output dir for rewritten files")
	overlay := flag.String("overlay", "", "overlay json to write")
	extra := flag.String("extra", "", "json file with extra overlay entries")
	rep := flag.String("report", "", "report json to write")
	t4 := flag.String("t4", "internal/repository", "comma separated pkg dirs that get T4")
	t8 := flag.String("t8", "", "comma separated pkg dirs whose os import becomes the simulated disk")
	flag.Parse()
	for _, p := range strings.Split(*t8, ",") {
		if p != "" {
			diskpkgs[p] = true
		}
	}
	for _, p := range strings.Split(*t4, ",") {
		t4pkgs[p] = true
	}
	replace := map[string]string{}
	if *extra != "" {
		b, err := os.ReadFile(*extra)
		if err != nil {
			fatal(err)
		}
		if err := json.Unmarshal(b, &replace); err != nil {
			fatal(err)
		}
	}
	var reports []report
	for _, pkg := range flag.Args() {
		dir := filepath.Join(*repo, pkg)
		ents, err := os.ReadDir(dir)
		if err != nil {
			fatal(err)
		}
		for _, e := range ents {
			name := e.Name()
			if e.IsDir() || !strings.HasSuffix(name, ".go") || (strings.HasSuffix(name, "_test.go") && !diskpkgs[pkg]) {
				continue
			}
			src := filepath.Join(dir, name)
			if _, virt := replace[src]; virt {
				continue
			}
			data, err := os.ReadFile(src)
			if err != nil {
				fatal(err)
			}
			var res []byte
			var ts []string
			if diskpkgs[pkg] {
				res, ts, err = rewriteDisk(src, data, filepath.Base(pkg))
			} else {
				res, ts, err = rewrite(src, data, t4pkgs[pkg])
			}
			if err != nil {
				fmt.Fprintf(os.Stderr, "simify: %s: %v (left untouched)\n", src, err)
				continue
			}
			if len(ts) == 0 {
				continue
			}
			dst := filepath.Join(*out, pkg, name)
			if err := os.MkdirAll(filepath.Dir(dst), 0o755); err != nil {
				fatal(err)
			}
			old, _ := os.ReadFile(dst)
			if !bytes.Equal(old, res) {
				if err := os.WriteFile(dst, res, 0o644); err != nil {
					fatal(err)
				}
			}
			replace[src] = dst
			reports = append(reports, report{File: filepath.Join(pkg, name), T: ts})
		}
	}
	ov := map[string]any{"Replace": replace}
	b, _ := json.MarshalIndent(ov, "", " ")
	if err := os.WriteFile(*overlay, b, 0o644); err != nil {
		fatal(err)
	}
	if *rep != "" {
		sort.Slice(reports, func(i, j int) bool { return reports[i].File < reports[j].File })
		b, _ := json.MarshalIndent(reports, "", " ")
		_ = os.WriteFile(*rep, b, 0o644)
	}
}

func fatal(err error) {
	fmt.Fprintln(os.Stderr, "simify:", err)
	os.Exit(2)
}

type rewriter struct {
	fset    *token.FileSet
	file    *ast.File
	names   map[string]string // import path -> local name
	used    map[string]bool   // transforms used
	t4      bool
	tmpN    int
	needSim bool
}

func rewrite(path string, src []byte, t4 bool) ([]byte, []string, error) {
	fset := token.NewFileSet()
	f, err := parser.ParseFile(fset, path, src, parser.ParseComments)
	if err != nil {
		return nil, nil, err
	}
	r := &rewriter{fset: fset, file: f, names: map[string]string{}, used: map[string]bool{}, t4: t4}
	for _, im := range f.Imports {
		p, _ := strconv.Unquote(im.Path.Value)
		name := filepath.Base(p)
		if im.Name != nil {
			name = im.Name.Name
		}
		r.names[p] = name
	}
	if r.names[simrtPath] != "" {
		return nil, nil, nil
	}
	r.walkFile()
	r.knobs(pkgOf(path))
	if len(r.used) == 0 {
		return nil, nil, nil
	}
	// add import and keep-alive references so removed uses do not break imports
	addImport(f, simrtPath)
	var keep []string
	if n := r.names["sync"]; n != "" && n != "_" && n != "." {
		keep = append(keep, "var _ "+n+".Locker")
	}
	if n := r.names["runtime"]; n != "" && n != "_" && n != "." {
		keep = append(keep, "var _ = "+n+".GOMAXPROCS")
	}
	if n := r.names["time"]; n != "" && n != "_" && n != "." {
		keep = append(keep, "var _ "+n+".Duration")
	}
	if n := r.names["os"]; n != "" && n != "_" && n != "." {
		keep = append(keep, "var _ = "+n+".Getpid")
	}
	var buf bytes.Buffer
	if err := format.Node(&buf, fset, f); err != nil {
		return nil, nil, err
	}
	buf.WriteString("\n// simify keep-alives\n")
	for _, k := range keep {
		buf.WriteString(k + "\n")
	}
	var ts []string
	for k := range r.used {
		ts = append(ts, k)
	}
	sort.Strings(ts)
	// re-parse to make sure the output is syntactically valid
	if _, err := parser.ParseFile(token.NewFileSet(), path, buf.Bytes(), 0); err != nil {
		return nil, nil, fmt.Errorf("rewritten file does not parse: %w", err)
	}
	return buf.Bytes(), ts, nil
}

func pkgOf(path string) string { return filepath.Base(filepath.Dir(path)) }

// knob describes a statement inserted at the entry of a named method (T6):
//
//	if v := simrt.Knob("<name>"); v != 0 { return <conv>(v) }
type knob struct{ pkg, recv, fn, name, conv string }

var knobTable = []knob{
	// pack size below the 4 MiB minimum that repository.New enforces
	{"repository", "Repository", "PackSize", "packsize", "uint"},
}

func (r *rewriter) knobs(pkg string) {
	for _, k := range knobTable {
		if k.pkg != pkg {
			continue
		}
		for _, d := range r.file.Decls {
			fd, ok := d.(*ast.FuncDecl)
			if !ok || fd.Name.Name != k.fn || fd.Recv == nil || len(fd.Recv.List) != 1 || fd.Body == nil {
				continue
			}
			t := fd.Recv.List[0].Type
			if st, ok := t.(*ast.StarExpr); ok {
				t = st.X
			}
			if id, ok := t.(*ast.Ident); !ok || id.Name != k.recv {
				continue
			}
			src := "package p\nfunc _() {\nif v := simrt.Knob(\"" + k.name + "\"); v != 0 { return " + k.conv + "(v) }\n}"
			pf, err := parser.ParseFile(token.NewFileSet(), "knob.go", src, 0)
			if err != nil {
				continue
			}
			stmt := pf.Decls[0].(*ast.FuncDecl).Body.List[0]
			clearPos(stmt)
			fd.Body.List = append([]ast.Stmt{stmt}, fd.Body.List...)
			r.used["T6:"+k.name] = true
		}
	}
}

// clearPos zeroes the positions of a grafted subtree so that the printer does
// not try to interleave comments of the host file by the foreign offsets.
func clearPos(n ast.Node) {
	ast.Inspect(n, func(n ast.Node) bool {
		switch x := n.(type) {
		case *ast.Ident:
			x.NamePos = 0
		case *ast.BasicLit:
			x.ValuePos = 0
		case *ast.IfStmt:
			x.If = 0
		case *ast.AssignStmt:
			x.TokPos = 0
		case *ast.CallExpr:
			x.Lparen, x.Rparen = 0, 0
		case *ast.BinaryExpr:
			x.OpPos = 0
		case *ast.BlockStmt:
			x.Lbrace, x.Rbrace = 0, 0
		case *ast.ReturnStmt:
			x.Return = 0
		}
		return true
	})
}

func addImport(f *ast.File, path string) {
	spec := &ast.ImportSpec{Path: &ast.BasicLit{Kind: token.STRING, Value: strconv.Quote(path)}}
	decl := &ast.GenDecl{Tok: token.IMPORT, Specs: []ast.Spec{spec}}
	// imports must come first
	f.Decls = append([]ast.Decl{decl}, f.Decls...)
	f.Imports = append(f.Imports, spec)
}

func (r *rewriter) isPkgSel(e ast.Expr, pkgPath, sel string) bool {
	s, ok := e.(*ast.SelectorExpr)
	if !ok {
		return false
	}
	id, ok := s.X.(*ast.Ident)
	if !ok {
		return false
	}
	n := r.names[pkgPath]
	return n != "" && id.Name == n && id.Obj == nil && s.Sel.Name == sel
}

func simSel(name string) *ast.SelectorExpr {
	return &ast.SelectorExpr{X: ast.NewIdent("simrt"), Sel: ast.NewIdent(name)}
}

func (r *rewriter) walkFile() {
	// generic expression replacement via parent-aware walk
	var visit func(n ast.Node)
	visit = func(n ast.Node) {
		ast.Inspect(n, func(n ast.Node) bool {
			switch x := n.(type) {
			case *ast.SelectorExpr:
				// T1
				for _, t := range []string{"Mutex", "RWMutex"} {
					if r.isPkgSel(x, "sync", t) {
						x.X = ast.NewIdent("simrt")
						r.used["T1"] = true
					}
				}
			case *ast.CallExpr:
				// T3
				if r.isPkgSel(x.Fun, "runtime", "GOMAXPROCS") && len(x.Args) == 1 {
					if lit, ok := x.Args[0].(*ast.BasicLit); ok && lit.Value == "0" {
						x.Fun = simSel("NumProcs")
						x.Args = nil
						r.used["T3"] = true
					}
				}
				if r.t4 {
					switch {
					case r.isPkgSel(x.Fun, "time", "Now") && len(x.Args) == 0:
						x.Fun = simSel("Now")
						r.used["T4"] = true
					case r.isPkgSel(x.Fun, "time", "Since") && len(x.Args) == 1:
						x.Fun = simSel("Since")
						r.used["T4"] = true
					case r.isPkgSel(x.Fun, "time", "NewTicker") && len(x.Args) == 1:
						x.Fun = simSel("NewTicker")
						r.used["T4"] = true
					case r.isPkgSel(x.Fun, "os", "Getpid") && len(x.Args) == 0:
						x.Fun = simSel("Getpid")
						r.used["T4"] = true
					case r.isPkgSel(x.Fun, "os", "Hostname") && len(x.Args) == 0:
						x.Fun = simSel("Hostname")
						r.used["T4"] = true
					case r.isPkgSel(x.Fun, "os", "FindProcess") && len(x.Args) == 1:
						x.Fun = simSel("FindProcess")
						r.used["T4"] = true
					}
				}
				// T7: process-global signal channel -> nil channel under simulation
				if r.isPkgSel(x.Fun, "github.com/restic/restic/internal/ui/signals", "GetProgressChannel") && len(x.Args) == 0 {
					x.Args = []ast.Expr{x.Fun}
					x.Fun = simSel("SignalChan")
					r.used["T7"] = true
				}
				// T2b: x.Go(fn)
				if s, ok := x.Fun.(*ast.SelectorExpr); ok && s.Sel.Name == "Go" && len(x.Args) == 1 && !x.Ellipsis.IsValid() {
					if id, ok := s.X.(*ast.Ident); !ok || id.Name != "simrt" {
						x.Args[0] = &ast.CallExpr{Fun: simSel("WrapAny"), Args: []ast.Expr{x.Args[0]}}
						r.used["T2"] = true
					}
				}
			case *ast.BlockStmt:
				r.rewriteGoStmts(&x.List)
			case *ast.CaseClause:
				r.rewriteGoStmts(&x.Body)
			case *ast.CommClause:
				r.rewriteGoStmts(&x.Body)
			}
			return true
		})
	}
	visit(r.file)
}

// rewriteGoStmts replaces `go f(a, b)` by
//
//	{ _sa0, _sa1 := a, b; go simrt.Wrap(func() { f(_sa0, _sa1) })() }
//
// so that arguments are still evaluated by the parent at the go statement.
func (r *rewriter) rewriteGoStmts(list *[]ast.Stmt) {
	for i, st := range *list {
		lbl, isLbl := st.(*ast.LabeledStmt)
		var g *ast.GoStmt
		if isLbl {
			g, _ = lbl.Stmt.(*ast.GoStmt)
		} else {
			g, _ = st.(*ast.GoStmt)
		}
		if g == nil {
			continue
		}
		call := g.Call
		var pre ast.Stmt
		if len(call.Args) > 0 {
			var lhs []ast.Expr
			var rhs []ast.Expr
			var newArgs []ast.Expr
			for _, a := range call.Args {
				name := fmt.Sprintf("_sa%d", r.tmpN)
				r.tmpN++
				lhs = append(lhs, ast.NewIdent(name))
				rhs = append(rhs, a)
				newArgs = append(newArgs, ast.NewIdent(name))
			}
			pre = &ast.AssignStmt{Lhs: lhs, Tok: token.DEFINE, Rhs: rhs}
			call = &ast.CallExpr{Fun: call.Fun, Args: newArgs, Ellipsis: call.Ellipsis}
			if call.Ellipsis.IsValid() {
				call.Ellipsis = token.Pos(1)
			}
		}
		body := &ast.FuncLit{
			Type: &ast.FuncType{Params: &ast.FieldList{}},
			Body: &ast.BlockStmt{List: []ast.Stmt{&ast.ExprStmt{X: call}}},
		}
		wrapped := &ast.CallExpr{Fun: &ast.CallExpr{Fun: simSel("Wrap"), Args: []ast.Expr{body}}}
		ng := &ast.GoStmt{Call: wrapped}
		var repl ast.Stmt = ng
		if pre != nil {
			repl = &ast.BlockStmt{List: []ast.Stmt{pre, ng}}
		}
		if isLbl {
			lbl.Stmt = repl
		} else {
			(*list)[i] = repl
		}
		r.used["T2"] = true
	}
}
