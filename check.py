#!/usr/bin/env python3
"""check.py -- driver for the deterministic-simulation checks of /verif.

  check.py setup                 build simify, overlay and all harness binaries
  check.py <ID> quick|thorough   run the check of one property
  check.py replay <file>         re-run a replay file in a fresh process
  check.py selftest [ID...]      determinism self-test (same seed, many processes)
  check.py list                  print registered properties

Exit status: 0 property held on everything explored; 1 violation (a line
"VIOLATION property=<id> replay=<path>" is printed); 2 build failure, watchdog,
harness trouble -- never a VIOLATION.
"""
import glob
import json
import os
import re
import shutil
import subprocess
import sys
import time

VERIF = os.path.dirname(os.path.abspath(__file__))
REPO = os.environ.get("VERIF_REPO", "/repo")
BUILD = os.path.join(VERIF, "build")
NWORK = int(os.environ.get("VERIF_WORKERS", "16"))

sys.path.insert(0, VERIF)
from registry import PROPS, WHITELIST, T4PKGS, T8PKGS, NOT_APPLICABLE, TECHNIQUE  # noqa: E402


def find_go():
    cands = sorted(glob.glob("/root/go/pkg/mod/golang.org/toolchain@v0.0.1-go1.25.*linux-amd64/bin/go"))
    if cands:
        return cands[-1]
    # fall back to whatever `go` resolves to for the repository
    try:
        out = subprocess.run(["go", "env", "GOROOT"], cwd=REPO, capture_output=True, text=True,
                             env=dict(os.environ, GOFLAGS="-mod=mod", GOPROXY="off")).stdout.strip()
        if out and os.path.exists(os.path.join(out, "bin", "go")):
            return os.path.join(out, "bin", "go")
    except Exception:
        pass
    return "go"


GO = find_go()


def goenv(extra=None):
    e = dict(os.environ)
    e.update({
        "GOTOOLCHAIN": "local", "GOFLAGS": "-mod=mod", "GOPROXY": "off", "GOSUMDB": "off",
        "GONOSUMDB": "*", "GONOSUMCHECK": "1", "GOWORK": "off", "CGO_ENABLED": "0",
        "GODEBUG": "randseednop=0",
    })
    if extra:
        e.update(extra)
    return e


def die(msg, code=2):
    print("check.py: " + msg, file=sys.stderr)
    sys.exit(code)


def run(cmd, **kw):
    return subprocess.run(cmd, **kw)


def repo_status():
    r = run(["git", "-C", REPO, "status", "--porcelain"], capture_output=True, text=True)
    return r.stdout


def build_simify():
    os.makedirs(os.path.join(BUILD, "bin"), exist_ok=True)
    out = os.path.join(BUILD, "bin", "simify")
    r = run([GO, "build", "-o", out, "."], cwd=os.path.join(VERIF, "simify"), env=goenv(), capture_output=True, text=True)
    if r.returncode != 0:
        die("building simify failed:\n" + r.stdout + r.stderr)
    return out


def gen_overlay():
    """Run simify over the current /repo sources and write build/overlay.json and go.mod."""
    simify = build_simify()
    extra = {}
    # simulator libraries -> /repo/internal/verif/<pkg>/
    for d in sorted(glob.glob(os.path.join(VERIF, "sim", "*"))):
        if not os.path.isdir(d):
            continue
        pkg = os.path.basename(d)
        for f in sorted(glob.glob(os.path.join(d, "*.go"))):
            extra[os.path.join(REPO, "internal", "verif", pkg, os.path.basename(f))] = f
    # harness files -> /repo/<pkg>/zz_verif_<file>
    for d in sorted(glob.glob(os.path.join(VERIF, "harness", "*"))):
        if not os.path.isdir(d):
            continue
        pkg = os.path.basename(d).replace("__", "/")
        for f in sorted(glob.glob(os.path.join(d, "*.go"))):
            extra[os.path.join(REPO, pkg, "zz_verif_" + os.path.basename(f))] = f
    os.makedirs(BUILD, exist_ok=True)
    with open(os.path.join(BUILD, "extra.json"), "w") as fh:
        json.dump(extra, fh, indent=1)
    gen = os.path.join(BUILD, "gen")
    if os.path.isdir(gen):
        shutil.rmtree(gen)
    cmd = [simify, "-repo", REPO, "-out", gen, "-overlay", os.path.join(BUILD, "overlay.json"),
           "-extra", os.path.join(BUILD, "extra.json"), "-report", os.path.join(BUILD, "simify_report.json"),
           "-t4", ",".join(T4PKGS), "-t8", ",".join(T8PKGS)] + WHITELIST + T8PKGS
    r = run(cmd, capture_output=True, text=True)
    if r.returncode != 0:
        die("simify failed:\n" + r.stdout + r.stderr)
    if r.stderr.strip():
        print(r.stderr.strip(), file=sys.stderr)
    # go.mod / go.sum copies with the extra requirement
    mod = open(os.path.join(REPO, "go.mod")).read()
    if "anishathalye/porcupine" not in mod:
        mod += "\nrequire github.com/anishathalye/porcupine v1.3.0\n"
    with open(os.path.join(BUILD, "go.mod"), "w") as fh:
        fh.write(mod)
    shutil.copy(os.path.join(REPO, "go.sum"), os.path.join(BUILD, "go.sum"))


def bin_path(pkg):
    return os.path.join(BUILD, "bin", pkg.replace("/", "_") + ".test")


def build_pkg(pkg):
    out = bin_path(pkg)
    cmd = [GO, "test", "-c", "-tags", "verif", "-vet=off", "-modfile", os.path.join(BUILD, "go.mod"),
           "-overlay", os.path.join(BUILD, "overlay.json"), "-o", out, "./" + pkg]
    t0 = time.time()
    r = run(cmd, cwd=REPO, env=goenv(), capture_output=True, text=True)
    if r.returncode != 0:
        die("build of %s failed:\n%s%s" % (pkg, r.stdout, r.stderr))
    return out, time.time() - t0


def shared_cwd():
    """Working directory of every worker: the same path in every process, so that nothing derived from it
    (restic stores the absolute backup path in snapshots) differs between a run and its replay. It only
    holds an empty directory `src` (the backup target, whose content is served by the simulated FS)."""
    base = "/dev/shm" if os.path.isdir("/dev/shm") and os.access("/dev/shm", os.W_OK) else BUILD
    d = os.path.join(base, "verif-cwd")
    os.makedirs(os.path.join(d, "src"), exist_ok=True)
    return d


def scratch_dir(tag):
    base = "/dev/shm" if os.path.isdir("/dev/shm") and os.access("/dev/shm", os.W_OK) else BUILD
    d = os.path.join(base, "verif-%s-%d" % (tag, os.getpid()))
    if os.path.isdir(d):
        shutil.rmtree(d, ignore_errors=True)
    os.makedirs(d)
    return d


def load_known():
    p = os.path.join(VERIF, "known_findings.json")
    if not os.path.exists(p):
        return []
    return json.load(open(p)).get("findings", [])


def known_match(pid, viol, known):
    for k in known:
        if k.get("property") != pid or k.get("status") != "finding":
            continue
        sig = k.get("signature", {})
        if sig.get("oracle") and sig["oracle"] != viol.get("oracle"):
            continue
        if sig.get("signature_regex") and not re.search(sig["signature_regex"], viol.get("signature", "")):
            continue
        return k
    return None


def run_workers(pid, spec, tier, seed, binp, scratch, budget, extra_args=None, nwork=None):
    nwork = nwork or NWORK
    outdir = os.path.join(BUILD, "out")
    os.makedirs(outdir, exist_ok=True)
    procs = []
    base = (seed * 1000003) % (1 << 48)
    for i in range(nwork):
        outp = os.path.join(outdir, "%s.%d.json" % (pid, i))
        if os.path.exists(outp):
            os.remove(outp)
        wdir = os.path.join(scratch, "w%d" % i)
        os.makedirs(wdir, exist_ok=True)
        cmd = [binp, "-test.run", "^" + spec["test"] + "$", "-test.timeout", "0", "-test.count", "1",
               "-verif.seed", str(base + i), "-verif.stride", str(nwork), "-verif.budget", "%ds" % budget,
               "-verif.out", outp, "-verif.tier", tier, "-verif.replaydir", os.path.join(VERIF, "replays"),
               "-verif.known", os.path.join(VERIF, "known_findings.json")]
        if spec.get("mode"):
            cmd += ["-verif.mode", spec["mode"]]
        if extra_args:
            cmd += extra_args
        env = goenv({"GOMAXPROCS": "1", "TMPDIR": wdir, "HOME": wdir, "XDG_CACHE_HOME": os.path.join(wdir, "cache"),
                     "RESTIC_CACHE_DIR": os.path.join(wdir, "rcache")})
        logf = open(os.path.join(outdir, "%s.%d.log" % (pid, i)), "w")
        p = subprocess.Popen(cmd, cwd=shared_cwd(), env=env, stdout=logf, stderr=subprocess.STDOUT)
        procs.append((p, outp, logf))
    results = []
    trouble = []
    deadline = time.time() + budget * 6 + 600
    for i, (p, outp, logf) in enumerate(procs):
        try:
            rc = p.wait(timeout=max(1, deadline - time.time()))
        except subprocess.TimeoutExpired:
            p.kill()
            rc = -9
        logf.close()
        if os.path.exists(outp):
            try:
                results.append(json.load(open(outp)))
            except Exception as ex:  # noqa
                trouble.append("worker %d: unreadable summary: %s" % (i, ex))
        else:
            trouble.append("worker %d exited with status %s without a summary (log: %s)" % (i, rc, logf.name))
        if rc not in (0, 1) and os.path.exists(outp):
            trouble.append("worker %d exit status %s" % (i, rc))
    return results, trouble


def replay_fresh(spec, binp, path, scratch, n=3):
    ok = 0
    hash_ok = 0
    for k in range(n):
        wdir = os.path.join(scratch, "replay%d" % k)
        os.makedirs(wdir, exist_ok=True)
        cmd = [binp, "-test.run", "^" + spec["test"] + "$", "-test.timeout", "0", "-verif.replay", path,
               "-verif.known", os.path.join(VERIF, "known_findings.json")]
        if spec.get("mode"):
            cmd += ["-verif.mode", spec["mode"]]
        env = goenv({"GOMAXPROCS": "1", "TMPDIR": wdir, "HOME": wdir, "RESTIC_CACHE_DIR": os.path.join(wdir, "rcache")})
        r = run(cmd, cwd=shared_cwd(), env=env, capture_output=True, text=True)
        m = re.search(r"REPLAY property=\S+ same_violation=(\w+) hash_match=(\w+)", r.stdout)
        if m and m.group(1) == "true":
            ok += 1
        if m and m.group(2) == "true":
            hash_ok += 1
    return ok, hash_ok


def aggregate(pid, spec, tier, seed, results, trouble, wall, build_s):
    runs = sum(r["runs"] for r in results)
    hashes = set()
    stats = {}
    counters = {}
    samples = []
    viols = []
    aborts = []
    steps = choices = budget_hit = 0
    simtime = 0.0
    known_hits = {}
    for r in results:
        hashes.update(r.get("hashes") or [])
        for k, v in (r.get("stats") or {}).items():
            stats[k] = stats.get(k, 0) + v
        for k, v in (r.get("counters") or {}).items():
            counters[k] = counters.get(k, 0) + v
        samples += (r.get("samples") or [])[:1]
        viols += r.get("violations") or []
        aborts += r.get("aborts") or []
        steps += r.get("steps", 0)
        choices += r.get("choices", 0)
        budget_hit += r.get("budget_hit", 0)
        simtime += r.get("sim_time_s", 0)
        for k, v in (r.get("known_findings") or {}).items():
            known_hits[k] = known_hits.get(k, 0) + v
    faults = {k[6:]: v for k, v in stats.items() if k.startswith("fault:")}
    probes = {k[6:]: v for k, v in stats.items() if k.startswith("probe:")}
    ev = {
        "property_id": pid,
        "tier": tier,
        "seed": seed,
        "level": spec["level"],
        "coverage": {
            "evaluations": runs,
            "distinct_nontrivial": len(hashes),
            "rule": spec["rule"],
            "samples": samples[:4] or [{"note": "no sample recorded"}],
            "exhaustive": False,
            "scheduler_steps": steps,
            "steps_with_real_choice": choices,
            "runs_hitting_step_budget": budget_hit,
            "simulated_time_s": round(simtime, 3),
            "runs_per_hour": int(runs / wall * 3600) if wall > 0 else 0,
            "faults_fired": faults,
            "probes": probes,
            "counters": counters,
            "workers": len(results),
            "real_vs_stub": spec.get("real_vs_stub", ""),
            "harness_aborts": len(aborts),
            "build_s": round(build_s, 1),
            "known_findings_met": known_hits,
        },
        "assumptions": spec.get("assumptions", []),
        "wall_s": round(wall, 2),
        "violations": len(viols),
    }
    return ev, viols, aborts


def check(pid, tier):
    if pid not in PROPS:
        die("unknown property %s" % pid)
    spec = PROPS[pid]
    seed = int(os.environ.get("VERIF_SEED", "1"))
    t0 = time.time()
    before = repo_status()
    gen_overlay()
    binp, build_s = build_pkg(spec["pkg"])
    budget = spec["quick_s"] if tier == "quick" else int(os.environ.get("VERIF_BUDGET_S", spec.get("thorough_s", 600)))
    scratch = scratch_dir(pid)
    for old in glob.glob(os.path.join(VERIF, "replays", pid + "-*.json")):
        os.remove(old)
    try:
        results, trouble = run_workers(pid, spec, tier, seed, binp, scratch, budget)
        wall = time.time() - t0
        ev, viols, aborts = aggregate(pid, spec, tier, seed, results, trouble, wall, build_s)
        known = load_known()
        new_viols = []
        printed_known = set()
        for k in known:
            if k.get("status") == "finding" and k.get("property") == pid and ev["coverage"]["known_findings_met"].get(k["id"]):
                print("KNOWN-FINDING: property=%s %s" % (pid, k["text"]))
                printed_known.add(k["id"])
        seen_sigs = set()
        for v in viols:
            k = known_match(pid, v["violation"], known)
            if k:
                if k["id"] not in printed_known:
                    print("KNOWN-FINDING: property=%s %s" % (pid, k["text"]))
                    printed_known.add(k["id"])
                continue
            sigkey = (v["violation"]["oracle"], v["violation"].get("signature"))
            if sigkey in seen_sigs or len(new_viols) >= 3:
                continue
            seen_sigs.add(sigkey)
            ok, hok = replay_fresh(spec, binp, v["replay"], scratch)
            v["fresh_replays"] = "%d/3 same violation, %d/3 same event hash" % (ok, hok)
            new_viols.append(v)
        ev["coverage"]["known_findings_seen"] = sorted(printed_known)
        ev["violations"] = len(new_viols)
        if new_viols:
            ev["coverage"]["violation_reports"] = new_viols[:5]
        if trouble or aborts:
            ev["coverage"]["trouble"] = (trouble + aborts)[:10]
        os.makedirs(os.path.join(VERIF, "evidence"), exist_ok=True)
        with open(os.path.join(VERIF, "evidence", pid + ".json"), "w") as fh:
            json.dump(ev, fh, indent=1, sort_keys=True)
        if tier == "thorough":
            # keep the last thorough run next to the (per-run rewritten) evidence file
            os.makedirs(os.path.join(VERIF, "evidence", "thorough"), exist_ok=True)
            with open(os.path.join(VERIF, "evidence", "thorough", pid + ".json"), "w") as fh:
                json.dump(ev, fh, indent=1, sort_keys=True)
        after = repo_status()
        if before != after:
            die("the check changed /repo's working tree:\n" + after)
        print("%s %s: runs=%d distinct=%d steps=%d faults=%s wall=%.1fs violations=%d" % (
            pid, tier, ev["coverage"]["evaluations"], ev["coverage"]["distinct_nontrivial"],
            ev["coverage"]["scheduler_steps"], json.dumps(ev["coverage"]["faults_fired"], sort_keys=True), wall, len(new_viols)))
        if new_viols:
            for v in new_viols:
                print("  %s: %s [%s]" % (v["violation"]["oracle"], v["violation"]["message"][:300].replace("\n", " "), v["fresh_replays"]))
                print("VIOLATION property=%s replay=%s" % (pid, v["replay"]))
            return 1
        if trouble or aborts or not results or ev["coverage"]["evaluations"] == 0:
            for tmsg in (trouble + aborts)[:10]:
                print("TROUBLE: " + tmsg, file=sys.stderr)
            return 2
        return 0
    finally:
        shutil.rmtree(scratch, ignore_errors=True)


def replay(path):
    rp = json.load(open(path))
    pid = rp["property"]
    spec = dict(PROPS[pid])
    if rp.get("mode"):
        spec["mode"] = rp["mode"]
    gen_overlay()
    binp, _ = build_pkg(spec["pkg"])
    scratch = scratch_dir("replay")
    try:
        cmd = [binp, "-test.run", "^" + rp["harness"] + "$", "-test.timeout", "0", "-verif.replay", os.path.abspath(path)]
        if spec.get("mode"):
            cmd += ["-verif.mode", spec["mode"]]
        if "-v" in sys.argv:
            cmd += ["-verif.dump"]
        env = goenv({"GOMAXPROCS": "1", "TMPDIR": scratch, "HOME": scratch, "RESTIC_CACHE_DIR": os.path.join(scratch, "rcache")})
        r = run(cmd, cwd=shared_cwd(), env=env, capture_output=True, text=True)
        sys.stdout.write(r.stdout)
        m = re.search(r"REPLAY property=\S+ same_violation=(\w+) hash_match=(\w+)", r.stdout)
        if not m:
            sys.stderr.write(r.stderr)
            return 2
        if m.group(1) == "true":
            print("VIOLATION property=%s replay=%s" % (pid, path))
            return 1
        return 0
    finally:
        shutil.rmtree(scratch, ignore_errors=True)


def selftest(pids):
    """Determinism: every seed in several concurrent fresh processes must give identical event hashes."""
    gen_overlay()
    bad = 0
    for pid in pids:
        spec = PROPS[pid]
        binp, _ = build_pkg(spec["pkg"])
        scratch = scratch_dir("self" + pid)
        nseeds = int(os.environ.get("VERIF_SELFTEST_SEEDS", "30"))
        reps = int(os.environ.get("VERIF_SELFTEST_REPS", "4"))
        procs = []
        for rep in range(reps):
            wdir = os.path.join(scratch, "r%d" % rep)
            os.makedirs(wdir)
            cmd = [binp, "-test.run", "^" + spec["test"] + "$", "-test.timeout", "0", "-verif.seed", "777000",
                   "-verif.n", str(nseeds), "-verif.hashes", "-verif.mintime", "0s", "-verif.replaydir", wdir]
            if spec.get("mode"):
                cmd += ["-verif.mode", spec["mode"]]
            env = goenv({"GOMAXPROCS": "1", "TMPDIR": wdir, "HOME": wdir, "RESTIC_CACHE_DIR": os.path.join(wdir, "rcache")})
            procs.append(subprocess.Popen(cmd, cwd=shared_cwd(), env=env, stdout=subprocess.PIPE, stderr=subprocess.STDOUT, text=True))
        outs = [p.communicate()[0] for p in procs]
        maps = []
        for o in outs:
            maps.append(dict(re.findall(r"HASH seed=(\d+) hash=(\w+)", o)))
        diverged = [s for s in maps[0] if any(m.get(s) != maps[0][s] for m in maps[1:])]
        print("selftest %s: %d seeds x %d processes, diverging seeds: %d %s" % (pid, len(maps[0]), reps, len(diverged), diverged[:5]))
        if diverged or not maps[0]:
            bad += 1
            if not maps[0]:
                print(outs[0][-2000:])
        shutil.rmtree(scratch, ignore_errors=True)
    return 1 if bad else 0


def setup():
    gen_overlay()
    pkgs = sorted({s["pkg"] for s in PROPS.values()})
    for pkg in pkgs:
        _, s = build_pkg(pkg)
        print("built %s in %.1fs" % (pkg, s))
    return 0


def manifest():
    """Write MANIFEST.json from the registry (single source of truth)."""
    all_ids = [json.loads(l)["id"] for l in open(os.path.join(VERIF, "properties.jsonl"))]
    checks = []
    for pid in sorted(PROPS):
        sp = PROPS[pid]
        checks.append({
            "property_id": pid,
            "quick_cmd": "python3 /verif/check.py %s quick" % pid,
            "thorough_cmd": "python3 /verif/check.py %s thorough" % pid,
            "evidence_file": "/verif/evidence/%s.json" % pid,
            "replay_cmd_template": "python3 /verif/check.py replay {path}",
            "engine": "simrt",
            "level_claimed": {"category": sp["level"], "text": sp["text"], "design_ref": sp.get("design_ref", "3")},
            "level_note": sp["note"],
            "technique": sp.get("technique", TECHNIQUE),
        })
    na = []
    for pid in all_ids:
        if pid in PROPS:
            continue
        reason = NOT_APPLICABLE.get(pid)
        if reason is None:
            reason = "not claimed: the harness designed for it in DESIGN.md is not built yet (no check is registered rather than a hollow one)"
        na.append({"property_id": pid, "reason": reason})
    m = {
        "version": 1,
        "setup_cmd": "python3 /verif/check.py setup",
        "hooks": {
            "guard": "verif",
            "enable": "no hook is committed to /repo: harness and simulator sources live in /verif and are injected at build time with "
                      "`go test -tags verif -overlay /verif/build/overlay.json -modfile /verif/build/go.mod`; the overlay also replaces "
                      "whitelisted restic sources by mechanically rewritten copies (simify: sync.Mutex -> schedulable mutex, go statements -> "
                      "named goroutines, GOMAXPROCS/time/pid virtualised) generated from /repo's current working tree on every check",
            "baseline_off_cmd": "cd /repo && go test -vet=off -count=1 -timeout 25m ./...",
            "source_commits": [],
            "add_only": True,
        },
        "engines": [{
            "name": "simrt", "path": "/verif/sim", "serves_properties": sorted(PROPS),
            "kind_free_text": "deterministic simulation: testing/synctest bubble + seeded choice-tape scheduler over all mutex/backend/rand/goroutine-start "
                              "park points + simulated object store with crash and fault injection + independent store decoder as oracle",
        }],
        "checks": checks,
        "not_applicable": na,
        "notes": "fix commits in /repo: see /verif/known_findings.json (status fixed). Replay: python3 /verif/check.py replay <file>.",
    }
    with open(os.path.join(VERIF, "MANIFEST.json"), "w") as fh:
        json.dump(m, fh, indent=1)
    print("MANIFEST.json: %d checks, %d not claimed" % (len(checks), len(na)))
    return 0


def main():
    if len(sys.argv) < 2:
        die(__doc__)
    cmd = sys.argv[1]
    if cmd == "setup":
        sys.exit(setup())
    if cmd == "manifest":
        sys.exit(manifest())
    if cmd == "list":
        for k, v in sorted(PROPS.items()):
            print(k, v["pkg"], v["test"])
        return
    if cmd == "replay":
        sys.exit(replay(sys.argv[2]))
    if cmd == "selftest":
        sys.exit(selftest(sys.argv[2:] or sorted(PROPS)))
    tier = sys.argv[2] if len(sys.argv) > 2 else os.environ.get("VERIF_TIER", "quick")
    sys.exit(check(cmd, tier))


if __name__ == "__main__":
    main()
