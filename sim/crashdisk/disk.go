// Package crashdisk is a small simulated POSIX file system with an explicit
// persistence model. Package backend/local is compiled against it instead of
// package os (simify T8), so that every file system call of the local backend
// is a scheduling point, may fail with a generated error, and may be the last
// thing that happened before a simulated power loss.
//
// Persistence model (weak, in the spirit of ALICE/CrashMonkey):
//   - file data is durable only as of the last successful fsync of that file;
//     of the writes (and size changes) issued since then any subset may have
//     reached the disk, the last chosen one possibly torn at a block boundary;
//   - a directory's entries are durable only as of the last successful fsync
//     of that directory; of the creates, renames, unlinks and mkdirs issued
//     since then any subset may have reached the disk, each one atomically;
//   - a rename that reached the disk makes the new name refer to the renamed
//     inode whether or not the creation of the old name did;
//   - permissions are not tracked for durability.
package crashdisk

import (
	"errors"
	"fmt"
	"io"
	"io/fs"
	stdos "os"
	"path/filepath"
	"sort"
	"strings"
	"sync"
	"syscall"
	"time"

	"github.com/restic/restic/internal/verif/simrt"
)

// re-exports so that the package can stand in for "os"
var (
	ErrNotExist   = fs.ErrNotExist
	ErrExist      = fs.ErrExist
	ErrPermission = fs.ErrPermission
)

type (
	FileMode = fs.FileMode
	FileInfo = fs.FileInfo
)

func IsPermission(err error) bool { return stdos.IsPermission(err) }
func IsNotExist(err error) bool   { return stdos.IsNotExist(err) }
func IsExist(err error) bool      { return stdos.IsExist(err) }
func Getpid() int                 { return 4242 }

// BlockSize is the granularity at which a torn write is cut.
const BlockSize = 64

type write struct {
	off  int64
	data []byte // nil: size change to off (truncate/extend with zeros)
}

type dirop struct {
	kind    string // "link", "unlink", "rename"
	name    string
	oldname string
	ino     *inode
}

type inode struct {
	id   int
	dir  bool
	mode fs.FileMode
	// files
	data   []byte
	ddata  []byte  // content as of the last fsync
	writes []write // since the last fsync
	// a failed fsync dropped written data from the write-back set: the page cache (data) and what can
	// ever reach the disk (ddata + writes) have diverged for good
	lostWrites bool
	// directories
	ents    map[string]*inode
	dents   map[string]*inode // entries as of the last fsync
	pending []dirop           // since the last fsync
}

// Faults is the permille rate at which an operation of a kind fails.
type Faults struct {
	Create, Write, Sync, Close, Rename, OpenDir, DirSync, Chmod, Remove, Prealloc, Mkdir int
	Budget                                                                                int
}

// Image is the state a crash left on the disk, with a note how it was chosen.
type Image struct {
	Disk *Disk
	Note string
	Step int
}

// Disk is one simulated file system.
type Disk struct {
	mu      sync.Mutex
	root    *inode
	nextIno int
	tmpSeq  int
	Step    int // number of operations that reached the disk layer
	F       Faults
	Sim     *simrt.Sim
	// crash images: before each mutating step one is taken with probability
	// ImageRate (permille), at most MaxImages per run.
	ImageRate int
	MaxImages int
	Images    []*Image
	NoSyncSupport bool // a successful Sync was answered ENOTSUP: durability claims are void
}

var cur *Disk

// Mount makes d the disk that the package-level functions operate on.
func Mount(d *Disk) { cur = d }

// Mounted returns the current disk.
func Mounted() *Disk { return cur }

func New(s *simrt.Sim) *Disk {
	d := &Disk{Sim: s}
	d.root = d.newInode(true, 0o755)
	return d
}

func (d *Disk) newInode(dir bool, mode fs.FileMode) *inode {
	d.nextIno++
	n := &inode{id: d.nextIno, dir: dir, mode: mode}
	if dir {
		n.ents = map[string]*inode{}
		n.dents = map[string]*inode{}
	}
	return n
}

func split(p string) []string {
	p = filepath.Clean("/" + p)
	if p == "/" {
		return nil
	}
	return strings.Split(p[1:], "/")
}

func perr(op, path string, errno error) error {
	return &fs.PathError{Op: op, Path: path, Err: errno}
}

// lookup returns the inode at path (volatile view).
func (d *Disk) lookup(op, path string) (*inode, error) {
	n := d.root
	for _, c := range split(path) {
		if !n.dir {
			return nil, perr(op, path, syscall.ENOTDIR)
		}
		k, ok := n.ents[c]
		if !ok {
			return nil, perr(op, path, syscall.ENOENT)
		}
		n = k
	}
	return n, nil
}

func (d *Disk) parent(op, path string) (*inode, string, error) {
	cs := split(path)
	if len(cs) == 0 {
		return nil, "", perr(op, path, syscall.EINVAL)
	}
	dir, err := d.lookup(op, "/"+strings.Join(cs[:len(cs)-1], "/"))
	if err != nil {
		return nil, "", perr(op, path, errors.Unwrap(err))
	}
	if !dir.dir {
		return nil, "", perr(op, path, syscall.ENOTDIR)
	}
	return dir, cs[len(cs)-1], nil
}

// step is the scheduling and fault point of every operation. rate is the
// permille chance of failing with one of errs; mutating says whether a crash
// image may be taken right before it.
func (d *Disk) step(op, path string, rate int, mutating bool, errs ...syscall.Errno) error {
	var out error
	simrt.Park("disk", op+" "+path, func(t *simrt.Tape) string {
		d.mu.Lock()
		defer d.mu.Unlock()
		d.Step++
		res := ""
		if mutating && len(d.Images) < d.MaxImages && t.Chance(d.ImageRate) {
			img := d.crashImage(t)
			img.Step = d.Step
			img.Note = "before " + op + " " + filepath.Base(path) + ": " + img.Note
			d.Images = append(d.Images, img)
			res = "image(" + img.Note + ") "
			d.count("fault:crash-image")
			d.count("probe:crash-before-" + op)
		}
		if rate > 0 && len(errs) > 0 && d.F.Budget != 0 && t.Chance(rate) {
			e := errs[t.Choose(len(errs))]
			if d.F.Budget > 0 {
				d.F.Budget--
			}
			out = perr(op, path, e)
			d.count("fault:" + op + "-" + errnoName(e))
			return res + "fail " + errnoName(e)
		}
		return res
	})
	return out
}

func (d *Disk) count(k string) {
	if d.Sim != nil {
		d.Sim.Count(k)
	}
}

func errnoName(e syscall.Errno) string {
	switch e {
	case syscall.ENOSPC:
		return "ENOSPC"
	case syscall.EIO:
		return "EIO"
	case syscall.EACCES:
		return "EACCES"
	case syscall.EPERM:
		return "EPERM"
	case syscall.EMFILE:
		return "EMFILE"
	case syscall.ENOTSUP:
		return "ENOTSUP"
	case syscall.EDQUOT:
		return "EDQUOT"
	case syscall.EINTR:
		return "EINTR"
	}
	return fmt.Sprintf("errno%d", int(e))
}

// ---- package-level API (stands in for package os) ----

type fileInfo struct {
	name string
	n    *inode
	size int64
}

func (fi fileInfo) Name() string { return fi.name }
func (fi fileInfo) Size() int64  { return fi.size }
func (fi fileInfo) Mode() fs.FileMode {
	if fi.n.dir {
		return fi.n.mode | fs.ModeDir
	}
	return fi.n.mode
}
func (fi fileInfo) ModTime() time.Time { return time.Unix(1700000000, 0) }
func (fi fileInfo) IsDir() bool        { return fi.n.dir }
func (fi fileInfo) Sys() any           { return nil }

func info(name string, n *inode) fileInfo {
	return fileInfo{name: name, n: n, size: int64(len(n.data))}
}

func Stat(name string) (FileInfo, error) {
	d := cur
	if err := d.step("stat", name, 0, false); err != nil {
		return nil, err
	}
	d.mu.Lock()
	defer d.mu.Unlock()
	n, err := d.lookup("stat", name)
	if err != nil {
		return nil, err
	}
	return info(filepath.Base(name), n), nil
}

func Lstat(name string) (FileInfo, error) { return Stat(name) }

func Mkdir(name string, perm FileMode) error {
	d := cur
	if err := d.step("mkdir", name, d.F.Mkdir, true, syscall.ENOSPC, syscall.EACCES, syscall.EIO); err != nil {
		return err
	}
	d.mu.Lock()
	defer d.mu.Unlock()
	return d.mkdir(name, perm)
}

func (d *Disk) mkdir(name string, perm FileMode) error {
	dir, base, err := d.parent("mkdir", name)
	if err != nil {
		return err
	}
	if _, ok := dir.ents[base]; ok {
		return perr("mkdir", name, syscall.EEXIST)
	}
	n := d.newInode(true, perm)
	dir.ents[base] = n
	dir.pending = append(dir.pending, dirop{kind: "link", name: base, ino: n})
	return nil
}

func MkdirAll(path string, perm FileMode) error {
	d := cur
	cs := split(path)
	for i := 1; i <= len(cs); i++ {
		p := "/" + strings.Join(cs[:i], "/")
		d.mu.Lock()
		n, err := d.lookup("mkdir", p)
		d.mu.Unlock()
		if err == nil {
			if !n.dir {
				return perr("mkdir", p, syscall.ENOTDIR)
			}
			continue
		}
		if err := Mkdir(p, perm); err != nil && !errors.Is(err, fs.ErrExist) {
			return err
		}
	}
	return nil
}

func Remove(name string) error {
	d := cur
	if err := d.step("remove", name, d.F.Remove, true, syscall.EACCES, syscall.EIO); err != nil {
		return err
	}
	d.mu.Lock()
	defer d.mu.Unlock()
	dir, base, err := d.parent("remove", name)
	if err != nil {
		return err
	}
	n, ok := dir.ents[base]
	if !ok {
		return perr("remove", name, syscall.ENOENT)
	}
	if n.dir && len(n.ents) > 0 {
		return perr("remove", name, syscall.ENOTEMPTY)
	}
	delete(dir.ents, base)
	dir.pending = append(dir.pending, dirop{kind: "unlink", name: base, ino: n})
	return nil
}

func RemoveAll(path string) error {
	d := cur
	if err := d.step("removeall", path, 0, true); err != nil {
		return err
	}
	d.mu.Lock()
	defer d.mu.Unlock()
	dir, base, err := d.parent("removeall", path)
	if err != nil {
		return nil
	}
	if n, ok := dir.ents[base]; ok {
		delete(dir.ents, base)
		dir.pending = append(dir.pending, dirop{kind: "unlink", name: base, ino: n})
	}
	return nil
}

func Rename(oldpath, newpath string) error {
	d := cur
	if err := d.step("rename", newpath, d.F.Rename, true, syscall.EIO, syscall.EACCES, syscall.ENOSPC); err != nil {
		return &stdos.LinkError{Op: "rename", Old: oldpath, New: newpath, Err: errors.Unwrap(err)}
	}
	d.mu.Lock()
	defer d.mu.Unlock()
	lerr := func(e error) error {
		return &stdos.LinkError{Op: "rename", Old: oldpath, New: newpath, Err: e}
	}
	odir, obase, err := d.parent("rename", oldpath)
	if err != nil {
		return lerr(errors.Unwrap(err))
	}
	ndir, nbase, err := d.parent("rename", newpath)
	if err != nil {
		return lerr(errors.Unwrap(err))
	}
	n, ok := odir.ents[obase]
	if !ok {
		return lerr(syscall.ENOENT)
	}
	if t, ok := ndir.ents[nbase]; ok && t.dir != n.dir {
		return lerr(syscall.EISDIR)
	}
	delete(odir.ents, obase)
	ndir.ents[nbase] = n
	if odir == ndir {
		ndir.pending = append(ndir.pending, dirop{kind: "rename", name: nbase, oldname: obase, ino: n})
	} else {
		// across directories the two halves are independent in this model
		ndir.pending = append(ndir.pending, dirop{kind: "link", name: nbase, ino: n})
		odir.pending = append(odir.pending, dirop{kind: "unlink", name: obase, ino: n})
	}
	return nil
}

func Chmod(name string, mode FileMode) error {
	d := cur
	if err := d.step("chmod", name, d.F.Chmod, true, syscall.EPERM, syscall.EIO); err != nil {
		return err
	}
	d.mu.Lock()
	defer d.mu.Unlock()
	n, err := d.lookup("chmod", name)
	if err != nil {
		return err
	}
	n.mode = mode.Perm()
	return nil
}

// File is an open file or directory.
type File struct {
	d      *Disk
	name   string
	n      *inode
	off    int64
	closed bool
	wr     bool
}

func Open(name string) (*File, error) {
	d := cur
	d.mu.Lock()
	n, lerr := d.lookup("open", name)
	d.mu.Unlock()
	rate := 0
	if lerr == nil && n.dir {
		rate = d.F.OpenDir
	}
	if err := d.step("open", name, rate, false, syscall.EMFILE, syscall.EIO); err != nil {
		return nil, err
	}
	d.mu.Lock()
	defer d.mu.Unlock()
	n, err := d.lookup("open", name)
	if err != nil {
		return nil, err
	}
	return &File{d: d, name: name, n: n}, nil
}

// CreateTemp creates a new file in dir whose name starts with pattern (no
// "*" support is needed by the local backend), opened for writing.
func CreateTemp(dir, pattern string) (*File, error) {
	d := cur
	if err := d.step("createtemp", filepath.Join(dir, pattern), d.F.Create, true, syscall.ENOSPC, syscall.EACCES, syscall.EIO, syscall.EDQUOT); err != nil {
		return nil, err
	}
	d.mu.Lock()
	defer d.mu.Unlock()
	dn, err := d.lookup("open", dir)
	if err != nil {
		return nil, perr("open", filepath.Join(dir, pattern), errors.Unwrap(err))
	}
	if !dn.dir {
		return nil, perr("open", dir, syscall.ENOTDIR)
	}
	prefix, suffix := pattern, ""
	if i := strings.LastIndex(pattern, "*"); i >= 0 {
		prefix, suffix = pattern[:i], pattern[i+1:]
	}
	for {
		d.tmpSeq++
		name := fmt.Sprintf("%s%09d%s", prefix, 100000000+d.tmpSeq*7919, suffix)
		if _, ok := dn.ents[name]; ok {
			continue
		}
		n := d.newInode(false, 0o600)
		n.data, n.ddata = []byte{}, []byte{}
		dn.ents[name] = n
		dn.pending = append(dn.pending, dirop{kind: "link", name: name, ino: n})
		return &File{d: d, name: filepath.Join(dir, name), n: n, wr: true}, nil
	}
}

// PreallocateFile stands in for fileio.PreallocateFile: fallocate with mode 0
// extends the file with zeros.
func PreallocateFile(f *File, size int64) error {
	d := f.d
	if err := d.step("fallocate", f.name, d.F.Prealloc, true, syscall.ENOTSUP, syscall.ENOSPC); err != nil {
		return errors.Unwrap(err)
	}
	d.mu.Lock()
	defer d.mu.Unlock()
	if int64(len(f.n.data)) < size {
		f.n.data = append(f.n.data, make([]byte, size-int64(len(f.n.data)))...)
		f.n.writes = append(f.n.writes, write{off: size})
	}
	return nil
}

func (f *File) Name() string { return f.name }

func (f *File) Write(p []byte) (int, error) {
	d := f.d
	if f.closed {
		return 0, perr("write", f.name, stdos.ErrClosed)
	}
	if !f.wr {
		return 0, perr("write", f.name, syscall.EBADF)
	}
	err := d.step("write", f.name, d.F.Write, true, syscall.ENOSPC, syscall.EIO, syscall.EDQUOT)
	d.mu.Lock()
	defer d.mu.Unlock()
	if err != nil {
		// a failing write may have written a (block-aligned) part
		part := (len(p) / 2) / BlockSize * BlockSize
		f.apply(p[:part])
		return part, err
	}
	f.apply(p)
	return len(p), nil
}

func (f *File) apply(p []byte) {
	if len(p) == 0 {
		return
	}
	n := f.n
	end := f.off + int64(len(p))
	if int64(len(n.data)) < end {
		n.data = append(n.data, make([]byte, end-int64(len(n.data)))...)
	}
	copy(n.data[f.off:end], p)
	n.writes = append(n.writes, write{off: f.off, data: append([]byte(nil), p...)})
	f.off = end
}

func (f *File) Read(p []byte) (int, error) {
	d := f.d
	if f.closed {
		return 0, perr("read", f.name, stdos.ErrClosed)
	}
	if err := d.step("read", f.name, 0, false); err != nil {
		return 0, err
	}
	d.mu.Lock()
	defer d.mu.Unlock()
	if f.n.dir {
		return 0, perr("read", f.name, syscall.EISDIR)
	}
	if f.off >= int64(len(f.n.data)) {
		return 0, io.EOF
	}
	n := copy(p, f.n.data[f.off:])
	f.off += int64(n)
	return n, nil
}

func (f *File) Seek(offset int64, whence int) (int64, error) {
	f.d.mu.Lock()
	defer f.d.mu.Unlock()
	switch whence {
	case io.SeekStart:
		f.off = offset
	case io.SeekCurrent:
		f.off += offset
	case io.SeekEnd:
		f.off = int64(len(f.n.data)) + offset
	}
	return f.off, nil
}

func (f *File) Stat() (FileInfo, error) {
	f.d.mu.Lock()
	defer f.d.mu.Unlock()
	if f.closed {
		return nil, perr("stat", f.name, stdos.ErrClosed)
	}
	return info(filepath.Base(f.name), f.n), nil
}

func (f *File) Sync() error {
	d := f.d
	if f.closed {
		return perr("sync", f.name, stdos.ErrClosed)
	}
	rate, errs := d.F.Sync, []syscall.Errno{syscall.EIO, syscall.ENOSPC}
	if f.n.dir {
		rate, errs = d.F.DirSync, []syscall.Errno{syscall.EIO, syscall.EINVAL}
	}
	if err := d.step("sync", f.name, rate, true, errs...); err != nil {
		if !f.n.dir {
			// Linux reports a write-back error once and marks the pages clean: the data written so far
			// stays visible in the page cache but is no longer scheduled for the disk; a later fsync
			// of the same file succeeds without it
			d.mu.Lock()
			f.n.writes = nil
			f.n.lostWrites = true
			d.mu.Unlock()
		}
		return err
	}
	d.mu.Lock()
	defer d.mu.Unlock()
	n := f.n
	if n.dir {
		n.dents = make(map[string]*inode, len(n.ents))
		for k, v := range n.ents {
			n.dents[k] = v
		}
		n.pending = nil
	} else {
		// what reaches the disk: the durable content plus the writes still scheduled for write-back
		n.ddata = applyWrites(n.ddata, n.writes)
		n.writes = nil
	}
	return nil
}

func applyWrites(base []byte, ws []write) []byte {
	out := append([]byte(nil), base...)
	for _, w := range ws {
		if w.data == nil {
			if int64(len(out)) < w.off {
				out = append(out, make([]byte, w.off-int64(len(out)))...)
			} else {
				out = out[:w.off]
			}
			continue
		}
		end := w.off + int64(len(w.data))
		if int64(len(out)) < end {
			out = append(out, make([]byte, end-int64(len(out)))...)
		}
		copy(out[w.off:end], w.data)
	}
	return out
}

func (f *File) Close() error {
	d := f.d
	if f.closed {
		return perr("close", f.name, stdos.ErrClosed)
	}
	rate := 0
	if f.wr {
		rate = d.F.Close
	}
	err := d.step("close", f.name, rate, f.wr, syscall.EIO, syscall.EINTR)
	f.closed = true
	return err
}

func (f *File) Fd() uintptr { return uintptr(f.n.id) }

func (f *File) Readdirnames(n int) ([]string, error) {
	fis, err := f.Readdir(n)
	var names []string
	for _, fi := range fis {
		names = append(names, fi.Name())
	}
	return names, err
}

func (f *File) Readdir(n int) ([]FileInfo, error) {
	d := f.d
	if f.closed {
		return nil, perr("readdir", f.name, stdos.ErrClosed)
	}
	if err := d.step("readdir", f.name, 0, false); err != nil {
		return nil, err
	}
	d.mu.Lock()
	defer d.mu.Unlock()
	if !f.n.dir {
		return nil, perr("readdirent", f.name, syscall.ENOTDIR)
	}
	names := make([]string, 0, len(f.n.ents))
	for k := range f.n.ents {
		names = append(names, k)
	}
	sort.Strings(names)
	var out []FileInfo
	for _, k := range names {
		out = append(out, info(k, f.n.ents[k]))
	}
	return out, nil
}

// ---- harness side ----

// SyncAll makes the whole current state durable (used after setup).
func (d *Disk) SyncAll() {
	d.mu.Lock()
	defer d.mu.Unlock()
	var walk func(n *inode)
	walk = func(n *inode) {
		if n.dir {
			n.dents = make(map[string]*inode, len(n.ents))
			for k, v := range n.ents {
				n.dents[k] = v
				walk(v)
			}
			n.pending = nil
		} else {
			n.ddata = append([]byte(nil), n.data...)
			n.writes = nil
		}
	}
	walk(d.root)
}

// FinalImage takes a crash image of the state at the end of a run.
func (d *Disk) FinalImage(t *simrt.Tape) *Image {
	d.mu.Lock()
	defer d.mu.Unlock()
	img := d.crashImage(t)
	img.Step = d.Step + 1
	img.Note = "after the last step: " + img.Note
	return img
}

// crashImage builds the disk a crash at this instant may leave behind; the
// tape picks which of the non-durable changes made it.
func (d *Disk) crashImage(t *simrt.Tape) *Image {
	nd := &Disk{Sim: d.Sim, nextIno: d.nextIno, tmpSeq: d.tmpSeq + 1000}
	var notes []string
	// 0: everything pending persists, 1: nothing, 2..: independent coin per item
	dirMode := t.Choose(4)
	dataMode := t.Choose(4)
	seen := map[*inode]*inode{}
	var build func(n *inode, path string) *inode
	build = func(n *inode, path string) *inode {
		if c, ok := seen[n]; ok {
			return c
		}
		c := &inode{id: n.id, dir: n.dir, mode: n.mode}
		seen[n] = c
		if !n.dir {
			c.data = persistData(n, t, dataMode, path, &notes)
			c.ddata = append([]byte(nil), c.data...)
			return c
		}
		ents := make(map[string]*inode, len(n.dents))
		for k, v := range n.dents {
			ents[k] = v
		}
		for _, op := range n.pending {
			keep := false
			switch dirMode {
			case 0:
				keep = true
			case 1:
				keep = false
			default:
				keep = t.Choose(2) == 0
			}
			if !keep {
				notes = append(notes, "lost "+op.kind+" "+op.name)
				continue
			}
			switch op.kind {
			case "link":
				ents[op.name] = op.ino
			case "unlink":
				if ents[op.name] == op.ino {
					delete(ents, op.name)
				}
			case "rename":
				if ents[op.oldname] == op.ino {
					delete(ents, op.oldname)
				}
				ents[op.name] = op.ino
			}
		}
		c.ents = map[string]*inode{}
		c.dents = map[string]*inode{}
		names := make([]string, 0, len(ents))
		for k := range ents {
			names = append(names, k)
		}
		sort.Strings(names)
		for _, k := range names {
			k2 := build(ents[k], path+"/"+k)
			c.ents[k] = k2
			c.dents[k] = k2
		}
		return c
	}
	nd.root = build(d.root, "")
	return &Image{Disk: nd, Note: fmt.Sprintf("dirs=%d data=%d %s", dirMode, dataMode, strings.Join(notes, "; "))}
}

func persistData(n *inode, t *simrt.Tape, mode int, path string, notes *[]string) []byte {
	if len(n.writes) == 0 {
		return append([]byte(nil), n.ddata...)
	}
	base := filepath.Base(path)
	switch mode {
	case 0:
		return applyWrites(n.ddata, n.writes)
	case 1:
		*notes = append(*notes, "data of "+base+" as of last fsync")
		return append([]byte(nil), n.ddata...)
	}
	out := append([]byte(nil), n.ddata...)
	kept, torn := 0, false
	for i, w := range n.writes {
		if t.Choose(2) != 0 {
			continue
		}
		kept++
		if w.data == nil {
			if int64(len(out)) < w.off {
				out = append(out, make([]byte, w.off-int64(len(out)))...)
			} else {
				out = out[:w.off]
			}
			continue
		}
		p := w.data
		if mode == 3 && i == len(n.writes)-1 && len(p) > BlockSize && t.Choose(2) == 0 {
			p = p[:(1+t.Choose((len(p)-1)/BlockSize))*BlockSize]
			torn = true
		}
		end := w.off + int64(len(p))
		if int64(len(out)) < end {
			out = append(out, make([]byte, end-int64(len(out)))...)
		}
		copy(out[w.off:end], p)
	}
	*notes = append(*notes, fmt.Sprintf("%d of %d unsynced writes of %s persisted (torn: %v)", kept, len(n.writes), base, torn))
	return out
}

// Tree lists all paths of the volatile view (for reports).
func (d *Disk) Tree() []string {
	d.mu.Lock()
	defer d.mu.Unlock()
	var out []string
	var walk func(n *inode, p string)
	walk = func(n *inode, p string) {
		if !n.dir {
			out = append(out, fmt.Sprintf("%s (%d bytes)", p, len(n.data)))
			return
		}
		names := make([]string, 0, len(n.ents))
		for k := range n.ents {
			names = append(names, k)
		}
		sort.Strings(names)
		for _, k := range names {
			walk(n.ents[k], p+"/"+k)
		}
	}
	walk(d.root, "")
	return out
}

// ReadFile returns the content of a file of the volatile view without parking.
func (d *Disk) ReadFile(path string) ([]byte, bool) {
	d.mu.Lock()
	defer d.mu.Unlock()
	n, err := d.lookup("read", path)
	if err != nil || n.dir {
		return nil, false
	}
	return append([]byte(nil), n.data...), true
}
