// Package model holds the reference models and the independent store decoder
// used as oracle: it reads the simulated store's bytes with nothing but the
// master key, crypto.Key.Open, a zstd decoder and encoding/json (not
// pack.List, not index.DecodeIndex, not Repository.LoadBlob).
package model

import (
	"crypto/sha256"
	"encoding/binary"
	"encoding/hex"
	"encoding/json"
	"errors"
	"fmt"
	"sort"

	"github.com/klauspost/compress/zstd"
	"github.com/restic/restic/internal/backend"
	"github.com/restic/restic/internal/repository/crypto"
)

// ID is a hex SHA-256.
type ID = string

// Blob is one blob found in a pack or named by an index.
type Blob struct {
	Type   string // "data" or "tree"
	ID     ID
	Pack   ID
	Offset uint
	Length uint // ciphertext length
	ULen   uint // uncompressed length (0 = not compressed)
}

func (b Blob) Key() string { return b.Type + "/" + b.ID }

var zdec, _ = zstd.NewReader(nil, zstd.WithDecoderConcurrency(1))

func open(key *crypto.Key, buf []byte) ([]byte, error) {
	if len(buf) < 32 {
		return nil, errors.New("ciphertext too short")
	}
	nonce, ct := buf[:16], buf[16:]
	return key.Open(nil, nonce, ct, nil)
}

// Hash returns the hex SHA-256 of data.
func Hash(data []byte) ID {
	h := sha256.Sum256(data)
	return hex.EncodeToString(h[:])
}

// PackContents is what the decoder found in a pack.
type PackContents struct {
	ID        ID
	Blobs     []Blob
	Plain     map[string][]byte // blob key -> plaintext (only when wantPlain)
	HeaderLen int
	BadBlobs  []string // blobs whose ciphertext does not authenticate or whose plaintext hash differs
}

// DecodePack parses a pack file from its bytes.
func DecodePack(key *crypto.Key, id ID, data []byte, wantPlain bool) (*PackContents, error) {
	if len(data) < 4 {
		return nil, errors.New("pack too short for length field")
	}
	hlen := int(binary.LittleEndian.Uint32(data[len(data)-4:]))
	if hlen < 32 || hlen > len(data)-4 {
		return nil, fmt.Errorf("pack header length %d invalid for pack of %d bytes", hlen, len(data))
	}
	hdr, err := open(key, data[len(data)-4-hlen:len(data)-4])
	if err != nil {
		return nil, fmt.Errorf("pack header: %w", err)
	}
	pc := &PackContents{ID: id, HeaderLen: hlen + 4}
	if wantPlain {
		pc.Plain = map[string][]byte{}
	}
	off := uint(0)
	for len(hdr) > 0 {
		var b Blob
		b.Pack = id
		t := hdr[0]
		var need int
		switch t {
		case 0, 1:
			need = 1 + 4 + 32
		case 2, 3:
			need = 1 + 4 + 4 + 32
		default:
			return nil, fmt.Errorf("pack header: invalid entry type %d", t)
		}
		if len(hdr) < need {
			return nil, errors.New("pack header: truncated entry")
		}
		if t == 0 || t == 2 {
			b.Type = "data"
		} else {
			b.Type = "tree"
		}
		b.Length = uint(binary.LittleEndian.Uint32(hdr[1:5]))
		p := 5
		if t >= 2 {
			b.ULen = uint(binary.LittleEndian.Uint32(hdr[5:9]))
			p = 9
		}
		b.ID = hex.EncodeToString(hdr[p : p+32])
		b.Offset = off
		off += b.Length
		hdr = hdr[need:]
		pc.Blobs = append(pc.Blobs, b)
	}
	if int(off)+hlen+4 != len(data) {
		return nil, fmt.Errorf("pack: blobs (%d) + header (%d) != file size %d", off, hlen+4, len(data))
	}
	for _, b := range pc.Blobs {
		ct := data[b.Offset : b.Offset+b.Length]
		pt, err := open(key, ct)
		if err == nil && b.ULen != 0 {
			pt, err = zdec.DecodeAll(pt, nil)
			if err == nil && uint(len(pt)) != b.ULen {
				err = fmt.Errorf("uncompressed length %d, header says %d", len(pt), b.ULen)
			}
		}
		if err == nil && Hash(pt) != b.ID {
			err = errors.New("plaintext hash mismatch")
		}
		if err != nil {
			pc.BadBlobs = append(pc.BadBlobs, b.Key()+": "+err.Error())
			continue
		}
		if wantPlain {
			pc.Plain[b.Key()] = pt
		}
	}
	return pc, nil
}

// BlobReadable reports whether ciphertext decrypts (and decompresses if ulen != 0) to a plaintext with the given hex ID.
func BlobReadable(key *crypto.Key, ct []byte, ulen uint, id ID) bool {
	pt, err := open(key, ct)
	if err == nil && ulen != 0 {
		pt, err = zdec.DecodeAll(pt, nil)
	}
	return err == nil && Hash(pt) == id
}

// DecodeUnpacked decrypts (and decompresses) an index/snapshot/lock file.
func DecodeUnpacked(key *crypto.Key, data []byte) ([]byte, error) {
	pt, err := open(key, data)
	if err != nil {
		return nil, err
	}
	if len(pt) == 0 {
		return nil, errors.New("empty plaintext")
	}
	switch pt[0] {
	case '{', '[':
		return pt, nil
	case 2:
		return zdec.DecodeAll(pt[1:], nil)
	}
	return nil, fmt.Errorf("unknown unpacked format byte %d", pt[0])
}

type jsonIndex struct {
	Supersedes []string `json:"supersedes"`
	Packs      []struct {
		ID    string `json:"id"`
		Blobs []struct {
			ID     string `json:"id"`
			Type   string `json:"type"`
			Offset uint   `json:"offset"`
			Length uint   `json:"length"`
			ULen   uint   `json:"uncompressed_length"`
		} `json:"blobs"`
	} `json:"packs"`
}

// DecodeIndex parses an index file.
func DecodeIndex(key *crypto.Key, data []byte) ([]Blob, error) {
	pt, err := DecodeUnpacked(key, data)
	if err != nil {
		return nil, err
	}
	var ji jsonIndex
	if err := json.Unmarshal(pt, &ji); err != nil {
		return nil, err
	}
	var out []Blob
	for _, p := range ji.Packs {
		for _, b := range p.Blobs {
			out = append(out, Blob{Type: b.Type, ID: b.ID, Pack: p.ID, Offset: b.Offset, Length: b.Length, ULen: b.ULen})
		}
	}
	return out, nil
}

// Snapshot is the decoded snapshot JSON (fields the oracles need).
type Snapshot struct {
	ID       ID       `json:"-"`
	Time     string   `json:"time"`
	Parent   string   `json:"parent"`
	Tree     string   `json:"tree"`
	Paths    []string `json:"paths"`
	Hostname string   `json:"hostname"`
	Tags     []string `json:"tags"`
	Original string   `json:"original"`
}

// DecodeSnapshot parses a snapshot file.
func DecodeSnapshot(key *crypto.Key, id ID, data []byte) (*Snapshot, error) {
	pt, err := DecodeUnpacked(key, data)
	if err != nil {
		return nil, err
	}
	var sn Snapshot
	if err := json.Unmarshal(pt, &sn); err != nil {
		return nil, err
	}
	sn.ID = id
	return &sn, nil
}

// TreeNode is a decoded tree entry.
type TreeNode struct {
	Name    string   `json:"name"`
	Type    string   `json:"type"`
	Content []string `json:"content"`
	Subtree string   `json:"subtree"`
	Size    uint64   `json:"size"`
	Link    string   `json:"linktarget"`
}

// Tree is a decoded tree blob.
type Tree struct {
	Nodes []TreeNode `json:"nodes"`
}

// StoreView is the decoder's view of a whole repository at one instant.
type StoreView struct {
	Packs     map[ID]*PackContents // readable packs
	BadPacks  map[ID]string        // unreadable packs
	Indexed   map[string][]Blob    // blob key -> index entries (from all index files)
	IndexErr  map[ID]string
	Snapshots map[ID]*Snapshot
	SnapErr   map[ID]string
	PackSizes map[ID]int
	key       *crypto.Key
	files     map[backend.Handle][]byte
	lazy      map[string][]byte
	lazyMode  bool
}

// View decodes everything in files.
func View(key *crypto.Key, files map[backend.Handle][]byte, wantPlain bool) *StoreView {
	v := &StoreView{Packs: map[ID]*PackContents{}, BadPacks: map[ID]string{}, Indexed: map[string][]Blob{}, IndexErr: map[ID]string{},
		Snapshots: map[ID]*Snapshot{}, SnapErr: map[ID]string{}, PackSizes: map[ID]int{}, key: key, files: files}
	var hs []backend.Handle
	for h := range files {
		hs = append(hs, h)
	}
	sort.Slice(hs, func(i, j int) bool {
		if hs[i].Type != hs[j].Type {
			return hs[i].Type < hs[j].Type
		}
		return hs[i].Name < hs[j].Name
	})
	for _, h := range hs {
		data := files[h]
		switch h.Type {
		case backend.PackFile:
			v.PackSizes[h.Name] = len(data)
			pc, err := DecodePack(key, h.Name, data, wantPlain)
			if err == nil && Hash(data) != h.Name {
				err = errors.New("pack file name is not the hash of its content")
			}
			if err != nil {
				v.BadPacks[h.Name] = err.Error()
				continue
			}
			v.Packs[h.Name] = pc
		case backend.IndexFile:
			bl, err := DecodeIndex(key, data)
			if err != nil {
				v.IndexErr[h.Name] = err.Error()
				continue
			}
			for _, b := range bl {
				v.Indexed[b.Key()] = append(v.Indexed[b.Key()], b)
			}
		case backend.SnapshotFile:
			sn, err := DecodeSnapshot(key, h.Name, data)
			if err != nil {
				v.SnapErr[h.Name] = err.Error()
				continue
			}
			v.Snapshots[h.Name] = sn
		}
	}
	return v
}

// Available reports whether blob key is named by a durable index entry whose
// pack is present, readable and really contains that blob at that place.
func (v *StoreView) Available(key string) bool {
	for _, e := range v.Indexed[key] {
		pc := v.Packs[e.Pack]
		if pc == nil {
			continue
		}
		for _, b := range pc.Blobs {
			if b.Key() == key && b.Offset == e.Offset && b.Length == e.Length {
				bad := false
				for _, bb := range pc.BadBlobs {
					if len(bb) >= len(key) && bb[:len(key)] == key {
						bad = true
					}
				}
				if !bad {
					return true
				}
			}
		}
	}
	return false
}

// Plain returns the plaintext of a blob from any readable pack (requires wantPlain).
func (v *StoreView) Plain(key string) []byte {
	for _, e := range v.Indexed[key] {
		if pc := v.Packs[e.Pack]; pc != nil && pc.Plain != nil {
			if pt, ok := pc.Plain[key]; ok {
				return pt
			}
		}
	}
	return nil
}

// PlainAnywhere returns the plaintext from any pack, indexed or not.
func (v *StoreView) PlainAnywhere(key string) []byte {
	var ids []string
	for id := range v.Packs {
		ids = append(ids, id)
	}
	sort.Strings(ids)
	for _, id := range ids {
		if pt, ok := v.Packs[id].Plain[key]; ok {
			return pt
		}
	}
	return nil
}

// ReachableNoPlain is Reachable for views built without plaintexts: tree blobs
// are decrypted on demand from the stored packs.
func (v *StoreView) ReachableNoPlain(tree ID) (need map[string]bool, missing []string) {
	if v.lazy == nil {
		v.lazy = map[string][]byte{}
	}
	v.lazyMode = true
	defer func() { v.lazyMode = false }()
	return v.Reachable(tree)
}

func (v *StoreView) lazyPlain(key string) []byte {
	if pt, ok := v.lazy[key]; ok {
		return pt
	}
	for _, e := range v.Indexed[key] {
		pc := v.Packs[e.Pack]
		if pc == nil {
			continue
		}
		data := v.files[backend.Handle{Type: backend.PackFile, Name: e.Pack}]
		if int(e.Offset+e.Length) > len(data) {
			continue
		}
		pt, err := open(v.key, data[e.Offset:e.Offset+e.Length])
		if err == nil && e.ULen != 0 {
			pt, err = zdec.DecodeAll(pt, nil)
		}
		if err == nil && Hash(pt) == key[len(key)-64:] {
			v.lazy[key] = pt
			return pt
		}
	}
	return nil
}

// Reachable walks a snapshot's tree using only available blobs. It returns the
// set of blob keys the snapshot needs and the list of those that are missing
// (not available per Available) or undecodable.
func (v *StoreView) Reachable(tree ID) (need map[string]bool, missing []string) {
	need = map[string]bool{}
	var walk func(id ID)
	walk = func(id ID) {
		k := "tree/" + id
		if need[k] {
			return
		}
		need[k] = true
		if !v.Available(k) {
			missing = append(missing, k)
			return
		}
		pt := v.Plain(k)
		if pt == nil && v.lazyMode {
			pt = v.lazyPlain(k)
		}
		if pt == nil {
			missing = append(missing, k+" (no plaintext)")
			return
		}
		var t Tree
		if err := json.Unmarshal(pt, &t); err != nil {
			missing = append(missing, k+" (undecodable)")
			return
		}
		for _, n := range t.Nodes {
			for _, c := range n.Content {
				ck := "data/" + c
				if !need[ck] {
					need[ck] = true
					if !v.Available(ck) {
						missing = append(missing, ck)
					}
				}
			}
			if n.Type == "dir" && n.Subtree != "" {
				walk(n.Subtree)
			}
		}
	}
	walk(tree)
	sort.Strings(missing)
	return need, missing
}
