// Package simbe is the simulated object store behind backend.Backend: one
// durable Store shared by per-process Clients, with park points on every
// operation, crash, transient/permanent errors, partial/corrupt reads, listing
// anomalies and at-rest corruption. See /verif/DESIGN.md 2.3.
package simbe

import (
	"bytes"
	"context"
	"errors"
	"fmt"
	"hash"
	"io"
	"sort"
	"sync"
	"time"

	"github.com/cespare/xxhash/v2"
	"github.com/restic/restic/internal/backend"
	"github.com/restic/restic/internal/verif/simrt"
)

var (
	ErrNotFound  = errors.New("simbe: file not found")
	ErrTooSmall  = errors.New("simbe: access beyond end of file")
	ErrCrashed   = errors.New("simbe: process crashed")
	ErrTransient = errors.New("simbe: injected transient error")
	ErrFull      = errors.New("simbe: no space left (injected permanent error)")
	ErrExists    = errors.New("simbe: file already exists")
)

// Mutation is one applied change of the store.
type Mutation struct {
	Seq    int
	At     time.Duration
	Proc   string
	Op     string // "save", "remove", "torn"
	H      backend.Handle
	Size   int
	Lock   bool
	Client *Client
}

func (m Mutation) String() string {
	return fmt.Sprintf("#%d %s %s %s/%s (%d)", m.Seq, m.Proc, m.Op, m.H.Type, short(m.H.Name), m.Size)
}

func short(s string) string {
	if len(s) > 10 {
		return s[:10]
	}
	return s
}

// File is a stored object.
type File struct {
	Data    []byte
	Created time.Duration
	Seq     int
}

// Store is the durable state.
type Store struct {
	Sim *simrt.Sim
	// mu guards Files and the counters: in pass-through (free) mode the goroutines of the
	// system under test are not serialised by the scheduler
	mu    sync.Mutex
	Files map[backend.Handle]*File
	Muts  int
	Log   []Mutation
	// OnMutation monitors run at the instant a mutation is applied, before the
	// operation returns to the caller. data is the stored content for saves.
	OnMutation []func(m Mutation, data []byte)
	// AltRange, if set, names another offset of the same file from which a
	// ranged read may be answered (a misdirected read inside one file, e.g.
	// the neighbouring blob of the same stored length).
	AltRange func(h backend.Handle, offset int64, length int, arg int) (int64, bool)
	// OnArrive/OnLeave run when an operation reaches / leaves the store.
	OnArrive []func(c *Client, op string, h backend.Handle)
	OnLeave  []func(c *Client, op string, h backend.Handle)
	KeepLog  bool
}

// NewStore creates an empty store.
func NewStore(s *simrt.Sim) *Store {
	return &Store{Sim: s, Files: map[backend.Handle]*File{}, KeepLog: true}
}

func norm(h backend.Handle) backend.Handle {
	h.IsMetadata = false
	if h.Type == backend.ConfigFile {
		h.Name = ""
	}
	return h
}

// Faults is the per-client fault profile (rates in permille per operation).
type Faults struct {
	// TimeoutErrs: failing loads may report errors that wrap context.DeadlineExceeded / context.Canceled
	// (request-level timeouts) although the caller's context is alive
	TimeoutErrs bool
	ErrBefore   int // transient error, no effect
	ErrAfter    int // effect applied (save/remove), transient error reported
	Torn        int // save: partial file left under the final name + error (non-atomic backends only)
	PartialRead int // load: some bytes, then an error
	CorruptRead int // load: bit flip / truncation in the delivered bytes
	ListFail    int // list: error after some entries
	ListDup     int // list: an entry reported twice
	Delay       int // operation delayed by up to MaxDelay
	MaxDelay    time.Duration
	Full        int // save: permanent error
	Budget      int // maximum number of faults this client may still fire (<0: unlimited)
	OnlyTypes   map[backend.FileType]bool
}

// Client is one simulated process's handle on the store.
type Client struct {
	S       *Store
	Proc    *simrt.Proc
	Props   backend.Properties
	F       Faults
	Dead    bool
	Muts    int // mutations applied by this client
	CrashAt int // crash right after this many applied mutations (0 = never)
	OnCrash func()
	// counters
	InFlight     int
	InFlightLock int
	Ops          int
	ListOrder    int // 0 sorted, 1 reverse, 2 permuted
	NoPark       bool
	// Script, if set, is asked first for every operation (n = running operation
	// count of this client); a non-nil result overrides the random fault draw.
	Script func(op string, h backend.Handle, n int) *Forced
}

// NewClient creates a handle for a process.
func (s *Store) NewClient(p *simrt.Proc, conns uint, atomic bool) *Client {
	return &Client{S: s, Proc: p, Props: backend.Properties{Connections: conns, HasAtomicReplace: atomic}, F: Faults{Budget: -1}}
}

var _ backend.Backend = &Client{}

func (c *Client) Properties() backend.Properties { return c.Props }
func (c *Client) Hasher() hash.Hash               { return xxhash.New() }
func (c *Client) Close() error                    { return nil }
func (c *Client) IsNotExist(err error) bool       { return errors.Is(err, ErrNotFound) }
func (c *Client) IsPermanentError(err error) bool {
	return errors.Is(err, ErrNotFound) || errors.Is(err, ErrTooSmall) || errors.Is(err, ErrFull)
}
func (c *Client) Warmup(_ context.Context, _ []backend.Handle) ([]backend.Handle, error) {
	return []backend.Handle{}, nil
}
func (c *Client) WarmupWait(_ context.Context, _ []backend.Handle) error { return nil }
func (c *Client) Delete(ctx context.Context) error {
	return errors.New("simbe: Delete not supported")
}

func (c *Client) procName() string {
	if c.Proc != nil {
		return c.Proc.Name
	}
	return "?"
}

// Crash kills the client: nothing it does from now on reaches the store.
func (c *Client) Crash() {
	if c.Dead {
		return
	}
	c.Dead = true
	if c.Proc != nil {
		c.Proc.Dead.Store(true)
	}
	c.S.Sim.Count("fault:crash")
	if c.OnCrash != nil {
		c.OnCrash()
	}
}

type decision struct {
	kind  string
	arg   int
	delay time.Duration
}

// Forced is a fault the harness scripts for one specific operation.
type Forced struct {
	Kind  string        // "delay", "err-before", "err-after"
	Delay time.Duration // for "delay"
}

func (c *Client) faultOK(t backend.FileType) bool {
	if c.F.Budget == 0 {
		return false
	}
	if c.F.OnlyTypes != nil && !c.F.OnlyTypes[t] {
		return false
	}
	return true
}

func (c *Client) fire(name string) {
	if c.F.Budget > 0 {
		c.F.Budget--
	}
	c.S.Sim.Count("fault:" + name)
}

// op parks the calling goroutine as operation `op` on h, and returns the fault
// decision the scheduler took for it.
func (c *Client) op(op string, h backend.Handle, options func(t *simrt.Tape, d *decision)) decision {
	var d decision
	c.Ops++
	isLock := h.Type == backend.LockFile
	if isLock {
		c.InFlightLock++
	} else {
		c.InFlight++
	}
	for _, f := range c.S.OnArrive {
		f(c, op, h)
	}
	if c.NoPark {
		return d
	}
	detail := op + " " + h.Type.String() + "/" + short(h.Name)
	allowDelay := true
	for {
		d = decision{}
		simrt.Park("be", detail, func(t *simrt.Tape) string {
			if c.Dead {
				return ""
			}
			if c.Script != nil {
				if f := c.Script(op, h, c.Ops); f != nil {
					if f.Kind == "delay" {
						if !allowDelay {
							return ""
						}
						d.kind, d.delay = "delay", f.Delay
						return "scripted delay " + f.Delay.String()
					}
					d.kind = f.Kind
					return "scripted " + f.Kind
				}
			}
			if !c.faultOK(h.Type) {
				return ""
			}
			if allowDelay && c.F.Delay > 0 && t.Chance(c.F.Delay) {
				ms := int(c.F.MaxDelay / time.Millisecond)
				d.kind = "delay"
				d.delay = time.Duration(1+t.Choose(ms)) * time.Millisecond
				return "delay " + d.delay.String()
			}
			if options != nil {
				options(t, &d)
			}
			if d.kind != "" {
				return d.kind
			}
			return ""
		})
		if d.kind == "delay" {
			c.fire("delay")
			allowDelay = false
			time.Sleep(d.delay)
			continue
		}
		return d
	}
}

func (c *Client) leave(op string, h backend.Handle) {
	if h.Type == backend.LockFile {
		c.InFlightLock--
	} else {
		c.InFlight--
	}
	for _, f := range c.S.OnLeave {
		f(c, op, h)
	}
}

func (c *Client) applied(m Mutation, data []byte) {
	s := c.S
	s.mu.Lock()
	s.Muts++
	c.Muts++
	m.Seq = s.Muts
	m.At = s.Sim.Elapsed()
	m.Proc = c.procName()
	m.Lock = m.H.Type == backend.LockFile
	m.Client = c
	if s.KeepLog {
		s.Log = append(s.Log, m)
	}
	s.mu.Unlock()
	for _, f := range s.OnMutation {
		f(m, data)
	}
	if c.CrashAt > 0 && c.Muts >= c.CrashAt {
		c.Crash()
	}
}

// Save stores the data under h.
func (c *Client) Save(ctx context.Context, h backend.Handle, rd backend.RewindReader) error {
	if err := h.Valid(); err != nil {
		return err
	}
	h = norm(h)
	if c.Dead {
		return ErrCrashed
	}
	buf, err := io.ReadAll(rd)
	if err != nil {
		return err
	}
	if int64(len(buf)) != rd.Length() {
		return fmt.Errorf("simbe: wrote %d bytes instead of the expected %d bytes", len(buf), rd.Length())
	}
	if rd.Hash() != nil {
		// the backend hash is optional (callers may pass a reader without one)
		hs := c.Hasher()
		_, _ = hs.Write(buf)
		if !bytes.Equal(hs.Sum(nil), rd.Hash()) {
			return errors.New("simbe: invalid file hash or content")
		}
	}
	d := c.op("Save", h, func(t *simrt.Tape, d *decision) {
		switch {
		case t.Chance(c.F.ErrBefore):
			d.kind = "err-before"
		case t.Chance(c.F.ErrAfter):
			d.kind = "err-after"
		case !c.Props.HasAtomicReplace && len(buf) > 0 && t.Chance(c.F.Torn):
			d.kind = "torn"
			d.arg = t.Choose(len(buf))
		case t.Chance(c.F.Full):
			d.kind = "full"
		}
	})
	defer c.leave("Save", h)
	if c.Dead {
		return ErrCrashed
	}
	switch d.kind {
	case "err-before":
		c.fire("save-err-before")
		return ErrTransient
	case "full":
		c.fire("save-full")
		return ErrFull
	}
	if ctx.Err() != nil {
		return ctx.Err()
	}
	c.S.mu.Lock()
	_, exists := c.S.Files[h]
	if exists && !c.Props.HasAtomicReplace {
		c.S.mu.Unlock()
		return ErrExists
	}
	if d.kind == "torn" {
		part := append([]byte(nil), buf[:d.arg]...)
		c.S.Files[h] = &File{Data: part, Created: c.S.Sim.Elapsed(), Seq: c.S.Muts + 1}
		c.S.mu.Unlock()
		c.fire("save-torn")
		c.applied(Mutation{Op: "torn", H: h, Size: len(part)}, part)
		return ErrTransient
	}
	c.S.Files[h] = &File{Data: buf, Created: c.S.Sim.Elapsed(), Seq: c.S.Muts + 1}
	c.S.mu.Unlock()
	c.applied(Mutation{Op: "save", H: h, Size: len(buf)}, buf)
	if c.Dead {
		return ErrCrashed
	}
	if d.kind == "err-after" {
		c.fire("save-err-after")
		return ErrTransient
	}
	return nil
}

type faultReader struct {
	rd    io.Reader
	left  int
	fault bool
}

func (f *faultReader) Read(p []byte) (int, error) {
	if f.fault && f.left <= 0 {
		return 0, ErrTransient
	}
	if f.fault && len(p) > f.left {
		p = p[:f.left]
	}
	n, err := f.rd.Read(p)
	f.left -= n
	return n, err
}

// Load runs fn with a reader for the requested range.
func (c *Client) Load(ctx context.Context, h backend.Handle, length int, offset int64, fn func(rd io.Reader) error) error {
	if err := h.Valid(); err != nil {
		return err
	}
	h = norm(h)
	if c.Dead {
		return ErrCrashed
	}
	if offset < 0 || length < 0 {
		return errors.New("simbe: invalid range")
	}
	d := c.op("Load", h, func(t *simrt.Tape, d *decision) {
		switch {
		case t.Chance(c.F.ErrBefore):
			d.kind = "err-before"
			if c.F.TimeoutErrs {
				d.arg = t.Choose(3)
			}
		case t.Chance(c.F.PartialRead):
			d.kind = "partial"
			d.arg = t.Choose(1 << 20)
		case t.Chance(c.F.CorruptRead):
			d.kind = "corrupt"
			d.arg = t.Choose(1 << 20)
		}
	})
	defer c.leave("Load", h)
	if c.Dead {
		return ErrCrashed
	}
	if d.kind == "err-before" {
		c.fire("load-err-before")
		switch d.arg {
		case 1:
			// a request-level timeout of the transport; the caller's context is still alive
			c.S.Sim.Count("fault:load-timeout-error")
			return fmt.Errorf("simbe: request failed: %w", context.DeadlineExceeded)
		case 2:
			c.S.Sim.Count("fault:load-timeout-error")
			return fmt.Errorf("simbe: request aborted by the transport: %w", context.Canceled)
		}
		return ErrTransient
	}
	c.S.mu.Lock()
	f, ok := c.S.Files[h]
	c.S.mu.Unlock()
	if !ok {
		return ErrNotFound
	}
	buf := f.Data
	if offset+int64(length) > int64(len(buf)) || offset > int64(len(buf)) {
		return ErrTooSmall
	}
	buf = buf[offset:]
	if length > 0 {
		buf = buf[:length]
	}
	buf = append([]byte(nil), buf...)
	if ctx.Err() != nil {
		return ctx.Err()
	}
	var rd io.Reader = bytes.NewReader(buf)
	switch d.kind {
	case "partial":
		if len(buf) > 0 {
			if (d.arg>>18)&1 == 1 {
				// the stream ends early without a read error; the failure is
				// reported only after the consumer returned (e.g. by Close)
				c.fire("load-short-then-err")
				if err := fn(bytes.NewReader(buf[:d.arg%len(buf)])); err != nil {
					return err
				}
				return ErrTransient
			}
			c.fire("load-partial")
			rd = &faultReader{rd: rd, left: d.arg % len(buf), fault: true}
		}
	case "corrupt":
		if len(buf) > 0 {
			c.fire("load-corrupt")
			kind := d.arg % 5
			if kind >= 3 && c.S.AltRange != nil && length > 0 && (d.arg>>8)%2 == 0 {
				// misdirected read inside the same file
				if off2, ok := c.S.AltRange(h, offset, length, d.arg>>9); ok && off2+int64(length) <= int64(len(f.Data)) {
					rd = bytes.NewReader(append([]byte(nil), f.Data[off2:off2+int64(length)]...))
					c.S.Sim.Count("fault:load-misdirected-range")
					kind = -1
				}
			}
			switch kind {
			case -1:
			case 0:
				buf = buf[:d.arg%len(buf)]
				rd = bytes.NewReader(buf)
			case 4:
				buf[d.arg%len(buf)] ^= byte(1 << (d.arg % 7))
			case 3:
				// stale / misdirected read: the bytes of another file of the same type (same range if possible)
				if other := c.S.otherFile(h, d.arg); other != nil {
					ob := other
					if int(offset) < len(ob) {
						ob = ob[offset:]
					}
					if length > 0 && length <= len(ob) {
						ob = ob[:length]
					}
					rd = bytes.NewReader(append([]byte(nil), ob...))
					c.S.Sim.Count("fault:load-misdirected")
					break
				}
				fallthrough
			default:
				buf[d.arg%len(buf)] ^= byte(1 << (d.arg % 7))
			}
		}
	}
	return fn(rd)
}

// Stat returns information about a file.
func (c *Client) Stat(ctx context.Context, h backend.Handle) (backend.FileInfo, error) {
	if err := h.Valid(); err != nil {
		return backend.FileInfo{}, err
	}
	h = norm(h)
	if c.Dead {
		return backend.FileInfo{}, ErrCrashed
	}
	d := c.op("Stat", h, func(t *simrt.Tape, d *decision) {
		if t.Chance(c.F.ErrBefore) {
			d.kind = "err-before"
		}
	})
	defer c.leave("Stat", h)
	if c.Dead {
		return backend.FileInfo{}, ErrCrashed
	}
	if d.kind == "err-before" {
		c.fire("stat-err")
		return backend.FileInfo{}, ErrTransient
	}
	c.S.mu.Lock()
	f, ok := c.S.Files[h]
	c.S.mu.Unlock()
	if !ok {
		return backend.FileInfo{}, ErrNotFound
	}
	return backend.FileInfo{Size: int64(len(f.Data)), Name: h.Name}, ctx.Err()
}

// Remove deletes a file.
func (c *Client) Remove(ctx context.Context, h backend.Handle) error {
	if err := h.Valid(); err != nil {
		return err
	}
	h = norm(h)
	if c.Dead {
		return ErrCrashed
	}
	d := c.op("Remove", h, func(t *simrt.Tape, d *decision) {
		switch {
		case t.Chance(c.F.ErrBefore):
			d.kind = "err-before"
		case t.Chance(c.F.ErrAfter):
			d.kind = "err-after"
		}
	})
	defer c.leave("Remove", h)
	if c.Dead {
		return ErrCrashed
	}
	if d.kind == "err-before" {
		c.fire("remove-err-before")
		return ErrTransient
	}
	if ctx.Err() != nil {
		return ctx.Err()
	}
	c.S.mu.Lock()
	if _, ok := c.S.Files[h]; !ok {
		c.S.mu.Unlock()
		return ErrNotFound
	}
	delete(c.S.Files, h)
	c.S.mu.Unlock()
	c.applied(Mutation{Op: "remove", H: h}, nil)
	if c.Dead {
		return ErrCrashed
	}
	if d.kind == "err-after" {
		c.fire("remove-err-after")
		return ErrTransient
	}
	return nil
}

// List calls fn for every file of type t. The listing is a snapshot taken at
// the instant the operation is released by the scheduler.
func (c *Client) List(ctx context.Context, t backend.FileType, fn func(backend.FileInfo) error) error {
	if c.Dead {
		return ErrCrashed
	}
	h := backend.Handle{Type: t, Name: "*"}
	d := c.op("List", h, func(tp *simrt.Tape, d *decision) {
		switch {
		case tp.Chance(c.F.ErrBefore):
			d.kind = "err-before"
		case tp.Chance(c.F.ListFail):
			d.kind = "list-fail"
			d.arg = tp.Choose(1 << 16)
		case tp.Chance(c.F.ListDup):
			d.kind = "list-dup"
			d.arg = tp.Choose(1 << 16)
		}
	})
	defer c.leave("List", h)
	if c.Dead {
		return ErrCrashed
	}
	if d.kind == "err-before" {
		c.fire("list-err")
		return ErrTransient
	}
	var fis []backend.FileInfo
	c.S.mu.Lock()
	for fh, f := range c.S.Files {
		if fh.Type == t {
			fis = append(fis, backend.FileInfo{Name: fh.Name, Size: int64(len(f.Data))})
		}
	}
	c.S.mu.Unlock()
	sort.Slice(fis, func(i, j int) bool { return fis[i].Name < fis[j].Name })
	if c.ListOrder == 1 {
		for i, j := 0, len(fis)-1; i < j; i, j = i+1, j-1 {
			fis[i], fis[j] = fis[j], fis[i]
		}
	}
	failAt := -1
	dupAt := -1
	if len(fis) > 0 {
		switch d.kind {
		case "list-fail":
			failAt = d.arg % (len(fis) + 1)
			c.fire("list-fail")
		case "list-dup":
			dupAt = d.arg % len(fis)
			c.fire("list-dup")
		}
	}
	for i, fi := range fis {
		if i == failAt {
			return ErrTransient
		}
		if ctx.Err() != nil {
			return ctx.Err()
		}
		if c.Dead {
			return ErrCrashed
		}
		if err := fn(fi); err != nil {
			return err
		}
		if i == dupAt {
			if err := fn(fi); err != nil {
				return err
			}
		}
	}
	if failAt == len(fis) && failAt >= 0 {
		return ErrTransient
	}
	return ctx.Err()
}

// ---- direct (non-simulated) access for harness and oracles ----

// Get returns the stored bytes (nil if absent).
func (s *Store) Get(h backend.Handle) []byte {
	s.mu.Lock()
	defer s.mu.Unlock()
	if f, ok := s.Files[norm(h)]; ok {
		return f.Data
	}
	return nil
}

// otherFile returns the content of another stored file of the same type (nil if there is none).
func (s *Store) otherFile(h backend.Handle, pick int) []byte {
	s.mu.Lock()
	defer s.mu.Unlock()
	var names []string
	for fh := range s.Files {
		if fh.Type == h.Type && fh.Name != h.Name {
			names = append(names, fh.Name)
		}
	}
	if len(names) == 0 {
		return nil
	}
	sort.Strings(names)
	return s.Files[backend.Handle{Type: h.Type, Name: names[pick%len(names)]}].Data
}

// Names returns the sorted names of all files of a type.
func (s *Store) Names(t backend.FileType) []string {
	s.mu.Lock()
	defer s.mu.Unlock()
	var out []string
	for h := range s.Files {
		if h.Type == t {
			out = append(out, h.Name)
		}
	}
	sort.Strings(out)
	return out
}

// Put stores bytes directly (at-rest manipulation by the harness).
func (s *Store) Put(h backend.Handle, data []byte) {
	s.mu.Lock()
	defer s.mu.Unlock()
	s.Files[norm(h)] = &File{Data: data, Created: s.Sim.Elapsed(), Seq: s.Muts}
}

// Del removes a file directly.
func (s *Store) Del(h backend.Handle) {
	s.mu.Lock()
	defer s.mu.Unlock()
	delete(s.Files, norm(h))
}

// Clone returns a deep copy of the file map (for crash-prefix sweeps).
func (s *Store) Clone() map[backend.Handle][]byte {
	s.mu.Lock()
	defer s.mu.Unlock()
	m := make(map[backend.Handle][]byte, len(s.Files))
	for h, f := range s.Files {
		m[h] = f.Data
	}
	return m
}

// Restore replaces the contents by a snapshot taken with Clone.
func (s *Store) Restore(m map[backend.Handle][]byte) {
	s.mu.Lock()
	defer s.mu.Unlock()
	s.Files = make(map[backend.Handle]*File, len(m))
	for h, d := range m {
		s.Files[h] = &File{Data: d}
	}
}
