// Package hk is the harness kit: helpers shared by harnesses that live in
// different restic packages (tuning knobs, content generators).
package hk

import (
	"github.com/restic/restic/internal/repository/index"
	"github.com/restic/restic/internal/restic"
	"github.com/restic/restic/internal/verif/simrt"
)

var origFull = index.Full

// SetIndexFullThreshold makes an in-memory index count as full at n blobs (in
// addition to restic's own rules: 50000 blobs or 10 minutes of age). n<=0
// restores the original behaviour.
func SetIndexFullThreshold(n int) {
	if n <= 0 {
		index.Full = origFull
		return
	}
	index.Full = func(idx *index.Index) bool {
		if origFull(idx) {
			simrt.Probe("index-full-by-restic-rule")
			return true
		}
		if int(idx.Len(restic.DataBlob)+idx.Len(restic.TreeBlob)) >= n {
			simrt.Probe("index-full-by-count")
			return true
		}
		return false
	}
}

// Content produces deterministic content of the given size and kind from a stream.
// kind 0: incompressible, 1: zeros, 2: repeated short pattern.
func Content(st *simrt.Stream, size int, kind int) []byte {
	b := make([]byte, size)
	switch kind {
	case 0:
		st.Fill(b)
	case 1:
	default:
		var pat [13]byte
		st.Fill(pat[:])
		for i := range b {
			b[i] = pat[i%len(pat)]
		}
	}
	return b
}
