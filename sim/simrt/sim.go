// Package simrt is the deterministic simulation runtime: a scheduler that owns
// every synchronisation point of the system under test (backend operations,
// mutex acquisitions, random draws, goroutine starts), a choice tape, a
// simulated per-process clock/identity, and probes. See /verif/DESIGN.md 2.2.
package simrt

import (
	"syscall"
	"fmt"
	"hash/fnv"
	"os"
	"runtime"
	"sort"
	"strings"
	"strconv"
	"sync"
	"sync/atomic"
	"testing"
	"testing/synctest"
	"time"
)

// G is the simulator's view of one goroutine.
type G struct {
	Name   string
	nspawn int
	npark  int
	Proc   *Proc
	prio   int64
}

// Proc is a simulated restic process: identity and wall-clock offset.
type Proc struct {
	Name        string
	PID         int
	Host        string
	ClockOffset time.Duration
	Dead        atomic.Bool
	// UID of the user the process runs as (0 = root); signalling a process of
	// another user fails with EPERM unless the sender is root
	UID int
	// standby: from SuspendAt (simulated time since the start of the run) the
	// process is frozen for SuspendFor: its tickers do not advance, its
	// goroutines are not released at park points, its monotonic clock stands
	// still while its wall clock (like everybody's) goes on
	SuspendAt  time.Duration
	SuspendFor time.Duration
	sim        *Sim
}

// suspendWindow returns the real (bubble clock) interval of the standby.
func (p *Proc) suspendWindow() (time.Time, time.Time, bool) {
	if p == nil || p.SuspendFor <= 0 {
		return time.Time{}, time.Time{}, false
	}
	s := p.sim
	if s == nil {
		s = cur.Load()
	}
	if s == nil {
		return time.Time{}, time.Time{}, false
	}
	from := s.start.Add(p.SuspendAt)
	return from, from.Add(p.SuspendFor), true
}

// Suspended reports whether the process is in standby right now.
func (p *Proc) Suspended() bool {
	from, to, ok := p.suspendWindow()
	now := time.Now()
	return ok && !now.Before(from) && now.Before(to)
}

// holdWhileSuspended blocks the calling goroutine until the standby is over.
func (p *Proc) holdWhileSuspended() {
	from, to, ok := p.suspendWindow()
	if !ok {
		return
	}
	if now := time.Now(); !now.Before(from) && now.Before(to) {
		time.Sleep(to.Sub(now))
	}
}

// suspendedBetween is how much of [a, b] (bubble clock) the process spent in standby.
func (p *Proc) suspendedBetween(a, b time.Time) time.Duration {
	from, to, ok := p.suspendWindow()
	if !ok || !b.After(a) {
		return 0
	}
	if a.Before(from) {
		a = from
	}
	if b.After(to) {
		b = to
	}
	if !b.After(a) {
		return 0
	}
	return b.Sub(a)
}

// activeDeadline is the bubble-clock instant at which d of the process's own
// (monotonic) time has passed since start.
func (p *Proc) activeDeadline(start time.Time, d time.Duration) time.Time {
	end := start.Add(d)
	from, to, ok := p.suspendWindow()
	if !ok || !start.Before(to) || !end.After(from) {
		return end
	}
	if start.Before(from) {
		return end.Add(to.Sub(from))
	}
	return to.Add(d)
}

// Sleep sleeps d of the calling process's own time (standby does not count).
func Sleep(d time.Duration) {
	p := CurProc()
	if p == nil {
		time.Sleep(d)
		return
	}
	time.Sleep(time.Until(p.activeDeadline(time.Now(), d)))
}

// Ticker stands in for time.Ticker in rewritten code (T4): it does not advance
// while the owning process is in standby.
type Ticker struct {
	C    <-chan time.Time
	real *time.Ticker
	stop chan struct{}
	once sync.Once
}

// NewTicker replaces time.NewTicker.
func NewTicker(d time.Duration) *Ticker {
	p := CurProc()
	if _, _, ok := p.suspendWindow(); !ok {
		rt := time.NewTicker(d)
		return &Ticker{C: rt.C, real: rt}
	}
	c := make(chan time.Time, 1)
	t := &Ticker{C: c, stop: make(chan struct{})}
	go func() {
		last := time.Now()
		for {
			next := p.activeDeadline(last, d)
			tm := time.NewTimer(time.Until(next))
			select {
			case <-t.stop:
				tm.Stop()
				return
			case <-tm.C:
			}
			last = next
			select {
			case c <- time.Now().Add(p.ClockOffset):
			default:
			}
		}
	}()
	return t
}

// Stop stops the ticker.
func (t *Ticker) Stop() {
	if t.real != nil {
		t.real.Stop()
		return
	}
	t.once.Do(func() { close(t.stop) })
}

type req struct {
	g      *G
	key    string
	kind   string
	detail string
	decide func(t *Tape) string
	ch     chan struct{}
}

// Event is one scheduling decision.
type Event struct {
	Seq    int
	At     time.Duration
	Key    string
	Kind   string
	Detail string
	N      int // number of candidates
	Note   string
}

func (e Event) String() string {
	return fmt.Sprintf("%d t=%v %s %s %s n=%d %s", e.Seq, e.At, e.Key, e.Kind, e.Detail, e.N, e.Note)
}

// Sim is one simulated execution.
type Sim struct {
	Tape     *Tape
	MaxSteps int
	// MaxIdle is the simulated time the scheduler waits with nothing parked
	// before it declares a deadlock.
	MaxIdle    time.Duration
	KeepEvents int // number of trailing events kept; <0 keeps all
	Procs      int // virtual GOMAXPROCS
	YieldMutex bool

	mu       sync.Mutex
	parked   []*req
	wake     chan struct{}
	active   int
	free     bool
	steps    int
	choices  int // steps with >=2 candidates
	hash     uint64
	events   []Event
	stats    map[string]int
	start    time.Time
	strategy int
	salt     uint64
	cps      map[int]bool
	last     *G
	monitors []func()
	gmap     map[uint64]*G
	anon     int
	Budget   bool // step budget was hit
	Deadlock string
	Panic    string // first panic caught in a simulated goroutine
	rnd      *Stream
	mainG    *G
	procs    map[int]*Proc
	// Knobs are per-run tuning values read through Knob (set before Run).
	Knobs map[string]int
}

var cur atomic.Pointer[Sim]

// Cur returns the active simulation or nil.
func Cur() *Sim { return cur.Load() }

// New creates a simulation over the given tape.
func New(t *Tape) *Sim {
	s := &Sim{Tape: t, MaxSteps: 200000, MaxIdle: 100 * time.Hour, KeepEvents: 200, Procs: 4, YieldMutex: true,
		wake: nil, stats: map[string]int{}, gmap: map[uint64]*G{}, Knobs: map[string]int{}}
	return s
}

func goid() uint64 {
	var buf [40]byte
	n := runtime.Stack(buf[:], false)
	// "goroutine 123 ["
	b := buf[10:n]
	var id uint64
	for _, c := range b {
		if c < '0' || c > '9' {
			break
		}
		id = id*10 + uint64(c-'0')
	}
	return id
}

func (s *Sim) curG() *G {
	id := goid()
	s.mu.Lock()
	g := s.gmap[id]
	if g == nil {
		s.anon++
		g = &G{Name: "u" + strconv.Itoa(s.anon)}
		s.gmap[id] = g
	}
	s.mu.Unlock()
	return g
}

// CurProc returns the simulated process of the calling goroutine (or nil).
func CurProc() *Proc {
	s := cur.Load()
	if s == nil {
		return nil
	}
	return s.curG().Proc
}

func hashName(salt uint64, name string) int64 {
	h := fnv.New64a()
	var b [8]byte
	for i := range b {
		b[i] = byte(salt >> (8 * i))
	}
	_, _ = h.Write(b[:])
	_, _ = h.Write([]byte(name))
	return int64(h.Sum64() >> 1)
}

func (s *Sim) child(parent *G, name string) *G {
	if name == "" {
		s.mu.Lock()
		parent.nspawn++
		name = parent.Name + "." + strconv.Itoa(parent.nspawn)
		s.mu.Unlock()
	}
	g := &G{Name: name, Proc: parent.Proc}
	g.prio = hashName(s.salt, name)
	return g
}

func (s *Sim) enter(g *G) (id uint64, prev *G) {
	id = goid()
	s.mu.Lock()
	prev = s.gmap[id]
	s.gmap[id] = g
	s.mu.Unlock()
	return
}

func (s *Sim) leave(id uint64, prev *G) {
	s.mu.Lock()
	if prev != nil {
		s.gmap[id] = prev
	} else {
		delete(s.gmap, id)
	}
	s.mu.Unlock()
}

// Wrap is inserted by simify around the function of every go statement: it
// gives the child its lineage name at spawn time and parks it once at start.
func Wrap(f func()) func() {
	s := cur.Load()
	if s == nil {
		return f
	}
	g := s.child(s.curG(), "")
	return func() {
		if cur.Load() != s {
			f()
			return
		}
		id, prev := s.enter(g)
		defer s.leave(id, prev)
		defer s.capturePanic(g)
		s.park(g, "start", "", nil)
		f()
	}
}

// WrapAny is inserted by simify around the argument of x.Go(fn).
func WrapAny[F func() | func() error](f F) F {
	s := cur.Load()
	if s == nil {
		return f
	}
	switch fn := any(f).(type) {
	case func():
		return any(Wrap(fn)).(F)
	case func() error:
		g := s.child(s.curG(), "")
		w := func() (err error) {
			if cur.Load() != s {
				return fn()
			}
			id, prev := s.enter(g)
			defer s.leave(id, prev)
			defer func() {
				if p := recover(); p != nil {
					s.recordPanic(g, p)
					err = fmt.Errorf("simrt: goroutine %s panicked: %v", g.Name, p)
				}
			}()
			s.park(g, "start", "", nil)
			return fn()
		}
		return any(w).(F)
	}
	return f
}

// Go starts a root task (a simulated process or harness client).
func (s *Sim) Go(name string, p *Proc, f func()) {
	g := &G{Name: name, Proc: p}
	g.prio = hashName(s.salt, name)
	s.mu.Lock()
	s.active++
	s.mu.Unlock()
	go func() {
		id, prev := s.enter(g)
		defer func() {
			if p := recover(); p != nil {
				s.recordPanic(g, p)
			}
			s.leave(id, prev)
			s.mu.Lock()
			s.active--
			s.mu.Unlock()
			s.notify()
		}()
		s.park(g, "start", "", nil)
		f()
	}()
}

func (s *Sim) capturePanic(g *G) {
	if p := recover(); p != nil {
		s.recordPanic(g, p)
	}
}

func (s *Sim) recordPanic(g *G, p any) {
	buf := make([]byte, 16<<10)
	n := runtime.Stack(buf, false)
	s.mu.Lock()
	if s.Panic == "" {
		s.Panic = fmt.Sprintf("goroutine %s: panic: %v\n%s", g.Name, p, buf[:n])
	}
	s.mu.Unlock()
}

func (s *Sim) notify() {
	select {
	case s.wake <- struct{}{}:
	default:
	}
}

// Park blocks the calling goroutine until the scheduler releases it. decide,
// if not nil, is run by the scheduler (the only tape reader) at release time;
// its result is logged.
func Park(kind, detail string, decide func(t *Tape) string) {
	s := cur.Load()
	if s == nil {
		return
	}
	s.park(s.curG(), kind, detail, decide)
}

func (s *Sim) park(g *G, kind, detail string, decide func(t *Tape) string) {
	s.mu.Lock()
	if s.free {
		s.mu.Unlock()
		if decide != nil {
			decide(freeTape)
		}
		return
	}
	if g.Proc != nil && g.Proc.SuspendFor > 0 {
		s.mu.Unlock()
		g.Proc.holdWhileSuspended()
		s.mu.Lock()
	}
	g.npark++
	r := &req{g: g, key: g.Name + "#" + strconv.Itoa(g.npark), kind: kind, detail: detail, decide: decide, ch: make(chan struct{})}
	s.parked = append(s.parked, r)
	s.mu.Unlock()
	s.notify()
	<-r.ch
	if g.Proc != nil && g.Proc.SuspendFor > 0 {
		g.Proc.holdWhileSuspended()
	}
}

// freeTape yields only benign choices; used when parks pass through.
var freeTape = ReplayTape(nil)

// IsParked reports whether the named goroutine currently waits for the
// scheduler (as opposed to being blocked on something else). Only meaningful
// at quiescence (from a monitor).
func (s *Sim) IsParked(name string) bool {
	s.mu.Lock()
	defer s.mu.Unlock()
	for _, r := range s.parked {
		if r.g.Name == name {
			return true
		}
	}
	return false
}

// GName returns the simulator name of the calling goroutine.
func GName() string {
	if s := cur.Load(); s != nil {
		return s.curG().Name
	}
	return ""
}

// AddMonitor registers a callback run by the scheduler at every quiescence.
func (s *Sim) AddMonitor(f func()) { s.monitors = append(s.monitors, f) }

// Count increments a statistic (fault fired, probe hit, ...).
func (s *Sim) Count(name string) {
	s.mu.Lock()
	s.stats[name]++
	s.mu.Unlock()
}

// Probe counts that a branch of interest was reached in the active run.
func Probe(name string) {
	if s := cur.Load(); s != nil {
		s.Count("probe:" + name)
	}
}

// Stats returns a copy of the counters.
func (s *Sim) Stats() map[string]int {
	s.mu.Lock()
	defer s.mu.Unlock()
	m := make(map[string]int, len(s.stats))
	for k, v := range s.stats {
		m[k] = v
	}
	return m
}

// Elapsed is the simulated time since the run started.
func (s *Sim) Elapsed() time.Duration { return time.Since(s.start) }

// Steps returns (scheduler steps, steps that had a real choice).
func (s *Sim) Steps() (int, int) { return s.steps, s.choices }

// Hash is the running hash of the event log.
func (s *Sim) Hash() string { return strconv.FormatUint(s.hash, 16) }

// Events returns the kept tail of the event log.
func (s *Sim) Events() []Event { return s.events }

// SetFree switches pass-through mode: parks return at once and consume no
// tape. Used for read-only oracle phases and to drain a run.
func (s *Sim) SetFree(free bool) {
	s.mu.Lock()
	s.free = free
	var rel []*req
	if free {
		rel = s.parked
		s.parked = nil
	}
	s.mu.Unlock()
	sort.Slice(rel, func(i, j int) bool { return rel[i].key < rel[j].key })
	for _, r := range rel {
		if r.decide != nil {
			r.decide(freeTape)
		}
		close(r.ch)
	}
}

func (s *Sim) logEvent(e Event) {
	h := fnv.New64a()
	var b [8]byte
	for i := range b {
		b[i] = byte(s.hash >> (8 * i))
	}
	_, _ = h.Write(b[:])
	_, _ = h.Write([]byte(e.Key))
	_, _ = h.Write([]byte{0})
	_, _ = h.Write([]byte(e.Kind))
	_, _ = h.Write([]byte{0})
	_, _ = h.Write([]byte(e.Detail))
	_, _ = h.Write([]byte{0})
	_, _ = h.Write([]byte(e.Note))
	_, _ = h.Write([]byte(strconv.FormatInt(int64(e.At), 10)))
	s.hash = h.Sum64()
	if s.KeepEvents != 0 {
		s.events = append(s.events, e)
		if s.KeepEvents > 0 && len(s.events) > 2*s.KeepEvents {
			s.events = append(s.events[:0], s.events[len(s.events)-s.KeepEvents:]...)
		}
	}
}

// Note appends a harness-level event (client step, oracle result) to the log.
// Must only be called while no other goroutine runs (from the scheduler
// goroutine between Loop calls, or from a released goroutine).
func (s *Sim) Note(kind, detail string) {
	s.mu.Lock()
	s.logEvent(Event{Seq: s.steps, At: time.Since(s.start), Key: "-", Kind: kind, Detail: detail})
	s.mu.Unlock()
}

func (s *Sim) pick(n int) int {
	if n <= 1 {
		return 0
	}
	s.choices++
	switch s.strategy {
	case 1: // sticky: keep running the goroutine released last, deviate 1 in 6
		if s.last != nil {
			for i, r := range s.parked {
				if r.g == s.last {
					if s.Tape.Choose(6) != 5 {
						return i
					}
					break
				}
			}
		}
		return s.Tape.Choose(n)
	case 2: // PCT-like: highest priority first, priorities change at a few steps
		best := 0
		for i, r := range s.parked {
			if r.g.prio > s.parked[best].g.prio {
				best = i
			}
		}
		if s.cps[s.steps] {
			s.parked[best].g.prio = -int64(s.steps)
		}
		return best
	default:
		return s.Tape.Choose(n)
	}
}

// Loop runs the scheduler until all root tasks have finished. It must be called
// from the bubble's main goroutine, which must not itself call code that parks.
func (s *Sim) Loop() {
	for {
		synctest.Wait()
		for _, m := range s.monitors {
			m()
		}
		s.mu.Lock()
		if s.active == 0 {
			s.mu.Unlock()
			return
		}
		if len(s.parked) == 0 {
			s.mu.Unlock()
			tm := time.NewTimer(s.MaxIdle)
			select {
			case <-s.wake:
				tm.Stop()
			case <-tm.C:
				// nothing parked, nothing woke up for MaxIdle of simulated
				// time: every remaining goroutine is blocked for good
				s.Deadlock = AllStacks()
				return
			}
			continue
		}
		if s.steps >= s.MaxSteps {
			s.Budget = true
			s.mu.Unlock()
			s.SetFree(true)
			continue
		}
		sort.Slice(s.parked, func(i, j int) bool { return s.parked[i].key < s.parked[j].key })
		n := len(s.parked)
		i := s.pick(n)
		r := s.parked[i]
		s.parked = append(s.parked[:i], s.parked[i+1:]...)
		s.last = r.g
		s.steps++
		note := ""
		s.mu.Unlock()
		if r.decide != nil {
			note = r.decide(s.Tape)
		}
		s.mu.Lock()
		s.logEvent(Event{Seq: s.steps, At: time.Since(s.start), Key: r.key, Kind: r.kind, Detail: r.detail, N: n, Note: note})
		s.mu.Unlock()
		close(r.ch)
	}
}

// Do runs f as a root task and schedules until it (and every other root task)
// has finished.
func (s *Sim) Do(name string, p *Proc, f func()) {
	s.Go(name, p, f)
	s.Loop()
}

// AllStacks returns a dump of all goroutines.
func AllStacks() string {
	buf := make([]byte, 1<<20)
	n := runtime.Stack(buf, true)
	return string(buf[:n])
}

// Result summarises a run.
type Result struct {
	Steps    int
	Choices  int
	Hash     string
	SimTime  time.Duration
	Budget   bool
	Deadlock string
	Stats    map[string]int
}

var runMu sync.Mutex

// Run executes body inside a fresh synctest bubble with s as the active
// simulation. body runs on the bubble's main goroutine: it creates everything,
// starts root tasks with s.Go and calls s.Loop. A real-time watchdog kills the
// process with exit status 2 if the run does not finish.
func Run(t *testing.T, s *Sim, watchdog time.Duration, body func()) Result {
	runMu.Lock()
	defer runMu.Unlock()
	done := make(chan struct{})
	if watchdog > 0 {
		go func() {
			select {
			case <-done:
			case <-time.After(watchdog):
				fmt.Fprintf(os.Stderr, "simrt: WATCHDOG after %v real time\n%s\n", watchdog, AllStacks())
				if WatchdogHook != nil {
					WatchdogHook()
				}
				os.Exit(2)
			}
		}()
	}
	defer close(done)
	defer func() {
		// goroutines that are blocked for good when the body returns (a deadlock the
		// harness has already recorded via s.Deadlock) make synctest panic at the end
		// of the bubble; they stay parked in the dead bubble
		if p := recover(); p != nil {
			if msg := fmt.Sprint(p); strings.Contains(msg, "blocked goroutines remain") {
				s.Count("leaked-blocked-goroutines")
				cur.Store(nil)
				return
			}
			panic(p)
		}
	}()
	synctest.Test(t, func(t *testing.T) {
		s.wake = make(chan struct{}, 1)
		s.start = time.Now()
		s.strategy = s.Tape.Choose(3)
		s.salt = uint64(s.Tape.Choose(1 << 20))
		if s.strategy == 2 {
			s.cps = map[int]bool{}
			d := s.Tape.Choose(4)
			for i := 0; i < d; i++ {
				s.cps[s.Tape.Choose(2000)] = true
			}
		}
		s.rnd = s.Tape.Stream()
		s.mainG = &G{Name: "main"}
		id, prev := s.enter(s.mainG)
		cur.Store(s)
		restoreRand := installRand(s)
		defer func() {
			// drain: let everything that is still parked run to completion
			s.SetFree(true)
			synctest.Wait()
			restoreRand()
			cur.Store(nil)
			s.leave(id, prev)
		}()
		body()
	})
	return Result{Steps: s.steps, Choices: s.choices, Hash: s.Hash(), SimTime: 0, Budget: s.Budget, Deadlock: s.Deadlock, Stats: s.Stats()}
}

// WatchdogHook is called before the watchdog exits the process.
var WatchdogHook func()

// NumProcs is what rewritten code sees instead of runtime.GOMAXPROCS(0).
func NumProcs() int {
	if s := cur.Load(); s != nil && s.Procs > 0 {
		return s.Procs
	}
	return runtime.GOMAXPROCS(0)
}

// Now is the calling simulated process's wall clock.
func Now() time.Time {
	if p := CurProc(); p != nil {
		t := time.Now().Add(p.ClockOffset)
		if p.SuspendFor > 0 {
			// inside a bubble time.Now carries no monotonic reading; a private zone (UTC, prints
			// the same) marks the value as "taken from this process's clock" for Since
			t = t.In(monoLoc)
		}
		return t
	}
	return time.Now()
}

var monoLoc = time.FixedZone("UTC", 0)

// Since is time.Since for the calling process: wall clock difference for a
// time without monotonic reading (e.g. parsed from a lock file), else the
// process's monotonic clock, which stands still during standby.
func Since(t time.Time) time.Duration {
	now := Now()
	d := now.Sub(t)
	if p := CurProc(); p != nil && p.SuspendFor > 0 && t.Location() == monoLoc {
		realNow := time.Now()
		if ex := p.suspendedBetween(realNow.Add(-d), realNow); ex > 0 {
			d -= ex
			Probe("monotonic-since-excluded-standby")
		}
	}
	return d
}

// Getpid is the calling simulated process's PID.
func Getpid() int {
	if p := CurProc(); p != nil && p.PID != 0 {
		return p.PID
	}
	return os.Getpid()
}

// Process stands in for os.Process in rewritten lock code: the liveness of a
// simulated PID is decided by the simulator's process table, never by
// signalling a real process of this machine.
type Process struct {
	pid  int
	real *os.Process
}

// FindProcess replaces os.FindProcess.
func FindProcess(pid int) (*Process, error) {
	if s := cur.Load(); s != nil {
		return &Process{pid: pid}, nil
	}
	p, err := os.FindProcess(pid)
	if err != nil {
		return nil, err
	}
	return &Process{pid: pid, real: p}, nil
}

// Release releases the process handle.
func (p *Process) Release() error {
	if p.real != nil {
		return p.real.Release()
	}
	return nil
}

// Signal reports whether the simulated process is alive (nil) or gone (error).
func (p *Process) Signal(sig os.Signal) error {
	if p.real != nil {
		return p.real.Signal(sig)
	}
	s := cur.Load()
	if s == nil {
		return os.ErrProcessDone
	}
	s.mu.Lock()
	pr := s.procs[p.pid]
	s.mu.Unlock()
	if pr == nil || pr.Dead.Load() {
		return os.ErrProcessDone
	}
	if me := CurProc(); me != nil && me.UID != 0 && me.UID != pr.UID {
		Probe("signal-eperm")
		return syscall.EPERM
	}
	return nil
}

// NewProc registers a simulated process.
func (s *Sim) NewProc(name string, pid int, host string) *Proc {
	p := &Proc{Name: name, PID: pid, Host: host, sim: s}
	s.mu.Lock()
	if s.procs == nil {
		s.procs = map[int]*Proc{}
	}
	s.procs[pid] = p
	s.mu.Unlock()
	return p
}

// SignalChan replaces calls of process-global channel getters (simify T7): a
// channel shared between bubbles cannot be used inside one, and the simulated
// system receives no OS signals, so under simulation the zero (nil) channel is
// returned, which a select treats as never ready.
func SignalChan[C any](f func() C) C {
	if cur.Load() != nil {
		var zero C
		return zero
	}
	return f()
}

// Knob returns a per-run tuning value set by the harness (0 = not set). It is
// read by statements simify inserts at the entry of selected functions.
func Knob(name string) int {
	if s := cur.Load(); s != nil {
		return s.Knobs[name]
	}
	return 0
}

// Hostname is the calling simulated process's host name.
func Hostname() (string, error) {
	if p := CurProc(); p != nil && p.Host != "" {
		return p.Host, nil
	}
	return os.Hostname()
}
