package simrt

// Tape is the single source of every choice a run makes (configuration,
// workload shape, which parked goroutine proceeds, which fault is injected).
// In search mode it is filled lazily from a PRNG seeded from VERIF_SEED and
// recorded; in replay mode it is read back and padded with 0. The value 0
// always stands for the benign default (lowest key, no fault, no delay) so that
// shrinking towards zero removes faults and canonicalises the schedule.
type Tape struct {
	Vals   []uint32
	pos    int
	replay bool
	s0, s1 uint64 // xoroshiro128+ state
	// Arity of every consumed choice (for the DFS enumerator)
	Arity []uint32
}

func splitmix(x *uint64) uint64 {
	*x += 0x9e3779b97f4a7c15
	z := *x
	z = (z ^ (z >> 30)) * 0xbf58476d1ce4e5b9
	z = (z ^ (z >> 27)) * 0x94d049bb133111eb
	return z ^ (z >> 31)
}

// NewTape returns a search-mode tape for the given seed.
func NewTape(seed uint64) *Tape {
	t := &Tape{}
	x := seed
	t.s0 = splitmix(&x)
	t.s1 = splitmix(&x)
	return t
}

// ReplayTape returns a tape that replays vals and then yields zeros.
func ReplayTape(vals []uint32) *Tape {
	return &Tape{Vals: append([]uint32(nil), vals...), replay: true}
}

// PrefixTape replays vals and continues with PRNG draws from seed afterwards.
func PrefixTape(vals []uint32, seed uint64) *Tape {
	t := NewTape(seed)
	t.Vals = append([]uint32(nil), vals...)
	return t
}

func (t *Tape) next() uint64 {
	s0, s1 := t.s0, t.s1
	r := s0 + s1
	s1 ^= s0
	t.s0 = (s0<<24 | s0>>40) ^ s1 ^ (s1 << 16)
	t.s1 = s1<<37 | s1>>27
	return r
}

// Choose returns a value in [0,n). n<=1 consumes nothing.
func (t *Tape) Choose(n int) int {
	if n <= 1 {
		return 0
	}
	var v uint32
	if t.pos < len(t.Vals) {
		v = t.Vals[t.pos] % uint32(n)
		t.Vals[t.pos] = v
	} else if t.replay {
		v = 0
		t.Vals = append(t.Vals, 0)
	} else {
		v = uint32((t.next() >> 11) % uint64(n))
		t.Vals = append(t.Vals, v)
	}
	t.pos++
	t.Arity = append(t.Arity, uint32(n))
	return int(v)
}

// Chance is true with probability permille/1000; the benign outcome (false) is
// tape value 0.
func (t *Tape) Chance(permille int) bool {
	if permille <= 0 {
		return false
	}
	if permille >= 1000 {
		permille = 999
	}
	return t.Choose(1000) >= 1000-permille
}

// Range returns a value in [lo,hi].
func (t *Tape) Range(lo, hi int) int {
	if hi <= lo {
		return lo
	}
	return lo + t.Choose(hi-lo+1)
}

// Consumed returns the values consumed so far.
func (t *Tape) Consumed() []uint32 {
	n := t.pos
	if n > len(t.Vals) {
		n = len(t.Vals)
	}
	return append([]uint32(nil), t.Vals[:n]...)
}

// Pos is the number of choices consumed.
func (t *Tape) Pos() int { return t.pos }

// Bytes fills b with tape-derived bytes (not recorded individually: one
// recorded 32-bit choice seeds a local stream). Used for generated content.
func (t *Tape) Stream() *Stream {
	a := uint64(t.Choose(1 << 30))
	x := a*0x9e3779b97f4a7c15 + 12345
	return &Stream{x: x}
}

// Stream is a cheap deterministic byte/number stream.
type Stream struct{ x uint64 }

func (s *Stream) Uint64() uint64 { return splitmix(&s.x) }
func (s *Stream) Intn(n int) int {
	if n <= 1 {
		return 0
	}
	return int(s.Uint64() % uint64(n))
}
func (s *Stream) Fill(b []byte) {
	for i := 0; i < len(b); i += 8 {
		v := s.Uint64()
		for j := 0; j < 8 && i+j < len(b); j++ {
			b[i+j] = byte(v >> (8 * j))
		}
	}
}
func (s *Stream) Read(b []byte) (int, error) { s.Fill(b); return len(b), nil }
