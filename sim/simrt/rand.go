package simrt

import (
	crand "crypto/rand"
	"io"
	mrand "math/rand"
	"strconv"
)

type simReader struct{ s *Sim }

func (r simReader) Read(b []byte) (int, error) {
	s := r.s
	if cur.Load() != s {
		return len(b), nil
	}
	s.park(s.curG(), "rand", strconv.Itoa(len(b)), nil)
	s.mu.Lock()
	s.rnd.Fill(b)
	s.mu.Unlock()
	return len(b), nil
}

// installRand replaces crypto/rand.Reader by a stream derived from the tape
// (its Read is a park point, so the consumption order is scheduled) and seeds
// math/rand (needs GODEBUG=randseednop=0).
func installRand(s *Sim) func() {
	old := crand.Reader
	crand.Reader = io.Reader(simReader{s})
	mrand.Seed(int64(s.salt) + 1) //nolint
	return func() { crand.Reader = old }
}
