package simrt

import "sync"

// guard protects the state words of all simulated mutexes. It is held for a
// few instructions only and never across a blocking operation.
var guard sync.Mutex

// Mutex replaces sync.Mutex in rewritten code. Blocking happens on a fresh
// channel per waiter, which testing/synctest treats as durable, and Lock is a
// park point so the order of critical sections is the scheduler's decision.
// Ownership is handed off FIFO.
type Mutex struct {
	locked  bool
	waiters []chan struct{}
}

func yield(kind string) {
	if s := cur.Load(); s != nil && s.YieldMutex {
		g := s.curG()
		if g == s.mainG {
			return
		}
		s.park(g, kind, "", nil)
	}
}

// Lock locks m.
func (m *Mutex) Lock() {
	yield("lock")
	guard.Lock()
	if !m.locked {
		m.locked = true
		guard.Unlock()
		return
	}
	ch := make(chan struct{})
	m.waiters = append(m.waiters, ch)
	guard.Unlock()
	<-ch
}

// TryLock tries to lock m.
func (m *Mutex) TryLock() bool {
	guard.Lock()
	defer guard.Unlock()
	if m.locked {
		return false
	}
	m.locked = true
	return true
}

// Unlock unlocks m.
func (m *Mutex) Unlock() {
	guard.Lock()
	if !m.locked {
		guard.Unlock()
		panic("simrt: unlock of unlocked mutex")
	}
	if len(m.waiters) > 0 {
		ch := m.waiters[0]
		m.waiters = m.waiters[1:]
		guard.Unlock()
		close(ch)
		return
	}
	m.locked = false
	guard.Unlock()
}

// RWMutex replaces sync.RWMutex with the same admission rules: readers are
// admitted (also recursively) unless a writer holds the lock or is waiting.
type RWMutex struct {
	w  bool
	r  int
	wq []chan struct{}
	rq []chan struct{}
}

// Lock takes the write lock.
func (m *RWMutex) Lock() {
	yield("wlock")
	guard.Lock()
	if !m.w && m.r == 0 {
		m.w = true
		guard.Unlock()
		return
	}
	ch := make(chan struct{})
	m.wq = append(m.wq, ch)
	guard.Unlock()
	<-ch
}

// TryLock tries to take the write lock.
func (m *RWMutex) TryLock() bool {
	guard.Lock()
	defer guard.Unlock()
	if m.w || m.r > 0 {
		return false
	}
	m.w = true
	return true
}

// Unlock releases the write lock.
func (m *RWMutex) Unlock() {
	guard.Lock()
	if !m.w {
		guard.Unlock()
		panic("simrt: unlock of unlocked rwmutex")
	}
	if len(m.rq) > 0 {
		rq := m.rq
		m.rq = nil
		m.w = false
		m.r += len(rq)
		guard.Unlock()
		for _, ch := range rq {
			close(ch)
		}
		return
	}
	if len(m.wq) > 0 {
		ch := m.wq[0]
		m.wq = m.wq[1:]
		guard.Unlock()
		close(ch)
		return
	}
	m.w = false
	guard.Unlock()
}

// RLock takes a read lock.
func (m *RWMutex) RLock() {
	yield("rlock")
	guard.Lock()
	if !m.w && len(m.wq) == 0 {
		m.r++
		guard.Unlock()
		return
	}
	ch := make(chan struct{})
	m.rq = append(m.rq, ch)
	guard.Unlock()
	<-ch
}

// TryRLock tries to take a read lock.
func (m *RWMutex) TryRLock() bool {
	guard.Lock()
	defer guard.Unlock()
	if m.w || len(m.wq) > 0 {
		return false
	}
	m.r++
	return true
}

// RUnlock releases a read lock.
func (m *RWMutex) RUnlock() {
	guard.Lock()
	if m.r <= 0 {
		guard.Unlock()
		panic("simrt: runlock of unlocked rwmutex")
	}
	m.r--
	if m.r == 0 && len(m.wq) > 0 {
		ch := m.wq[0]
		m.wq = m.wq[1:]
		m.w = true
		guard.Unlock()
		close(ch)
		return
	}
	guard.Unlock()
}

// RLocker returns a Locker for the read side.
func (m *RWMutex) RLocker() sync.Locker { return (*rlocker)(m) }

type rlocker RWMutex

func (r *rlocker) Lock()   { (*RWMutex)(r).RLock() }
func (r *rlocker) Unlock() { (*RWMutex)(r).RUnlock() }
