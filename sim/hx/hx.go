// Package hx is the harness executive shared by all property harnesses: flag
// handling, the seed loop, evidence aggregation, minimisation and replay.
package hx

import (
	"encoding/json"
	"flag"
	"fmt"
	"hash/fnv"
	"os"
	"path/filepath"
	"regexp"
	"runtime"
	"runtime/debug"
	"sort"
	"strconv"
	"strings"
	"sync"
	"testing"
	"time"

	"github.com/restic/restic/internal/verif/simrt"
)

var (
	flagSeed    = flag.Uint64("verif.seed", 1, "first seed")
	flagStride  = flag.Uint64("verif.stride", 1, "seed stride (number of workers)")
	flagN       = flag.Int("verif.n", 0, "number of seeds (0: until budget)")
	flagBudget  = flag.Duration("verif.budget", 10*time.Second, "wall-clock budget")
	flagOut     = flag.String("verif.out", "", "result json path")
	flagReplay  = flag.String("verif.replay", "", "replay file to run")
	flagReplays = flag.String("verif.replaydir", "/verif/replays", "where replay files are written")
	flagTier    = flag.String("verif.tier", "quick", "quick|thorough")
	flagDump    = flag.Bool("verif.dump", false, "print the full event log of every run (debugging, determinism test)")
	flagHashes  = flag.Bool("verif.hashes", false, "print seed and event hash per run")
	flagMinTime = flag.Duration("verif.mintime", 60*time.Second, "minimisation time budget")
	flagMode    = flag.String("verif.mode", "", "harness specific mode")
	flagKnown   = flag.String("verif.known", "", "known_findings.json (status=finding entries are counted, not reported as violations)")
)

type knownFinding struct {
	ID        string `json:"id"`
	Property  string `json:"property"`
	Status    string `json:"status"`
	Signature struct {
		Oracle string `json:"oracle"`
		Regex  string `json:"signature_regex"`
	} `json:"signature"`
	re *regexp.Regexp
}

var known []*knownFinding
var knownLoaded bool

func loadKnown() {
	if knownLoaded || *flagKnown == "" {
		return
	}
	knownLoaded = true
	b, err := os.ReadFile(*flagKnown)
	if err != nil {
		return
	}
	var f struct {
		Findings []*knownFinding `json:"findings"`
	}
	if json.Unmarshal(b, &f) != nil {
		return
	}
	for _, k := range f.Findings {
		if k.Status != "finding" {
			continue
		}
		if k.Signature.Regex != "" {
			k.re, _ = regexp.Compile(k.Signature.Regex)
		}
		known = append(known, k)
	}
}

func matchKnown(property, oracle, signature string) string {
	for _, k := range known {
		if k.Property != property {
			continue
		}
		if k.Signature.Oracle != "" && k.Signature.Oracle != oracle {
			continue
		}
		if k.re != nil && !k.re.MatchString(signature) {
			continue
		}
		return k.ID
	}
	return ""
}

// Tier returns the tier name.
func Tier() string { return *flagTier }

// Mode returns the harness-specific mode string.
func Mode() string { return *flagMode }

// Violation describes a failed oracle.
type Violation struct {
	Oracle    string `json:"oracle"`
	Signature string `json:"signature"`
	Message   string `json:"message"`
}

func (v *Violation) Error() string { return v.Oracle + ": " + v.Message }

// Rec is handed to a harness run: it records what the run did.
type Rec struct {
	T         *testing.T
	Tape      *simrt.Tape
	Sim       *simrt.Sim
	Violation *Violation
	Sample    map[string]any
	Counters  map[string]int
	Nontriv   bool
	Abort     string // harness trouble (not a violation)
	SimTime   time.Duration
	Quiet     bool
	Property  string
	// CaseKey, if set, identifies the generated case (inputs, damage, fault plan) of this run; it is
	// combined with the event-log hash when distinct cases are counted (runs that do all their work in
	// pass-through mode have no scheduling events to tell them apart)
	CaseKey string
	Known   map[string]int // known findings met in this run (id -> count)
	mu        sync.Mutex
}

// Fail records a violation (the first one wins).
func (r *Rec) Fail(oracle, signature, format string, args ...any) {
	r.mu.Lock()
	defer r.mu.Unlock()
	if id := matchKnown(r.Property, oracle, signature); id != "" {
		// a recorded genuine defect: counted, reported as KNOWN-FINDING by check.py, the run goes on
		if r.Known == nil {
			r.Known = map[string]int{}
		}
		r.Known[id]++
		return
	}
	if r.Violation == nil {
		r.Violation = &Violation{Oracle: oracle, Signature: signature, Message: fmt.Sprintf(format, args...)}
	}
}

// Failed reports whether a violation has been recorded.
func (r *Rec) Failed() bool {
	r.mu.Lock()
	defer r.mu.Unlock()
	return r.Violation != nil
}

// Count adds to a harness-level counter (reported in the evidence).
func (r *Rec) Count(name string, n int) {
	r.mu.Lock()
	defer r.mu.Unlock()
	if r.Counters == nil {
		r.Counters = map[string]int{}
	}
	r.Counters[name] += n
}

// Set stores a sample field.
func (r *Rec) Set(k string, v any) {
	r.mu.Lock()
	defer r.mu.Unlock()
	if r.Sample == nil {
		r.Sample = map[string]any{}
	}
	r.Sample[k] = v
}

// RunFunc is one simulated execution driven by tape.
type RunFunc func(r *Rec)

// Replay is the replay file format.
type Replay struct {
	Property  string     `json:"property"`
	Harness   string     `json:"harness"`
	Mode      string     `json:"mode,omitempty"`
	Tier      string     `json:"tier,omitempty"`
	Seed      uint64     `json:"seed"`
	Tape      []uint32   `json:"tape"`
	Violation *Violation `json:"violation"`
	EventHash string     `json:"event_hash"`
	Events    []string   `json:"events"`
	GoVersion string     `json:"go_version"`
	Sample    any        `json:"sample,omitempty"`
	Minimised bool       `json:"minimised"`
	OrigLen   int        `json:"original_tape_len"`
}

// Summary is what a worker process writes for check.py.
type Summary struct {
	Property    string           `json:"property"`
	Harness     string           `json:"harness"`
	Runs        int              `json:"runs"`
	Nontrivial  int              `json:"nontrivial"`
	Hashes      []string         `json:"hashes"`
	Steps       int64            `json:"steps"`
	Choices     int64            `json:"choices"`
	SimTimeS    float64          `json:"sim_time_s"`
	Stats       map[string]int   `json:"stats"`
	Counters    map[string]int   `json:"counters"`
	Budget      int              `json:"budget_hit"`
	Samples     []map[string]any `json:"samples"`
	Violations  []ViolationRec   `json:"violations"`
	Aborts      []string         `json:"aborts"`
	WallS       float64          `json:"wall_s"`
	FirstSeed   uint64           `json:"first_seed"`
	LastSeed    uint64           `json:"last_seed"`
	Determinism map[string]int   `json:"determinism,omitempty"`
	Known       map[string]int   `json:"known_findings,omitempty"`
}

// ViolationRec is one reported violation.
type ViolationRec struct {
	Seed      uint64    `json:"seed"`
	Violation Violation `json:"violation"`
	Replay    string    `json:"replay"`
	Reproduce string    `json:"reproduced_in_process"`
}

type outcome struct {
	rec *Rec
	res simrt.Result
	sim *simrt.Sim
}

func runOnce(t *testing.T, tape *simrt.Tape, run RunFunc, keep int) (o outcome) {
	rec := &Rec{T: t, Tape: tape}
	o.rec = rec
	run(rec)
	return o
}

// Main is called from a TestVerifXXX function.
func Main(t *testing.T, property string, run RunFunc) {
	harness := t.Name()
	debug.SetGCPercent(400)
	debug.SetMemoryLimit(2 << 30) // 16 workers share the machine
	loadKnown()
	if *flagReplay != "" {
		replayMain(t, property, harness, run)
		return
	}
	start := time.Now()
	sum := &Summary{Property: property, Harness: harness, Stats: map[string]int{}, Counters: map[string]int{}, FirstSeed: *flagSeed}
	hashes := map[string]bool{}
	ntHashes := map[string]bool{}
	for i := 0; ; i++ {
		if *flagN > 0 && i >= *flagN {
			break
		}
		if *flagN == 0 && time.Since(start) > *flagBudget {
			break
		}
		seed := *flagSeed + uint64(i)**flagStride
		sum.LastSeed = seed
		tape := simrt.NewTape(seed)
		rec := &Rec{T: t, Tape: tape, Property: property}
		run(rec)
		sum.Runs++
		if rec.Abort != "" {
			sum.Aborts = append(sum.Aborts, fmt.Sprintf("seed %d: %s", seed, rec.Abort))
			if len(sum.Aborts) > 20 {
				break
			}
			continue
		}
		if rec.Sim != nil {
			steps, choices := rec.Sim.Steps()
			sum.Steps += int64(steps)
			sum.Choices += int64(choices)
			for k, v := range rec.Sim.Stats() {
				sum.Stats[k] += v
			}
			h := rec.Sim.Hash()
			if rec.CaseKey != "" {
				ck := fnv.New64a()
				_, _ = ck.Write([]byte(rec.CaseKey))
				h = h + ":" + strconv.FormatUint(ck.Sum64(), 16)
			}
			hashes[h] = true
			faults := 0
			for k, v := range rec.Sim.Stats() {
				if strings.HasPrefix(k, "fault:") {
					faults += v
				}
			}
			if choices > 0 || faults > 0 || rec.Nontriv {
				ntHashes[h] = true
			}
			if rec.Sim.Budget {
				sum.Budget++
			}
			if *flagHashes {
				fmt.Printf("HASH seed=%d hash=%s steps=%d\n", seed, h, steps)
			}
			if *flagDump {
				for _, e := range rec.Sim.Events() {
					fmt.Printf("EV seed=%d %s\n", seed, e.String())
				}
			}
		}
		for k, v := range rec.Known {
			if sum.Known == nil {
				sum.Known = map[string]int{}
			}
			sum.Known[k] += v
		}
		sum.SimTimeS += rec.SimTime.Seconds()
		for k, v := range rec.Counters {
			sum.Counters[k] += v
		}
		if len(sum.Samples) < 3 && rec.Sample != nil {
			rec.Sample["seed"] = seed
			sum.Samples = append(sum.Samples, rec.Sample)
		}
		if rec.Violation != nil {
			vr := report(t, property, harness, seed, tape, rec, run)
			sum.Violations = append(sum.Violations, vr)
			if len(sum.Violations) >= 1 {
				break
			}
		}
		if i%64 == 63 {
			runtime.GC()
			// goroutines that stay blocked in abandoned bubbles keep their memory; a worker stops its seed
			// loop early (and reports what it covered) rather than be killed by the kernel
			var ms runtime.MemStats
			runtime.ReadMemStats(&ms)
			if ms.HeapAlloc > 1500<<20 {
				sum.Stats["worker-stopped-early-memory"] = 1
				break
			}
		}
	}
	for h := range ntHashes {
		sum.Hashes = append(sum.Hashes, h)
	}
	sort.Strings(sum.Hashes)
	sum.Nontrivial = len(ntHashes)
	sum.WallS = time.Since(start).Seconds()
	writeSummary(sum)
	if len(sum.Violations) > 0 {
		t.Logf("violations: %d", len(sum.Violations))
	}
}

func writeSummary(sum *Summary) {
	if *flagOut == "" {
		b, _ := json.Marshal(struct {
			Runs       int
			Nontrivial int
			Steps      int64
			Violations int
			Aborts     []string
			WallS      float64
			Stats      map[string]int
			Counters   map[string]int
		}{sum.Runs, sum.Nontrivial, sum.Steps, len(sum.Violations), sum.Aborts, sum.WallS, sum.Stats, sum.Counters})
		fmt.Println("SUMMARY", string(b))
		return
	}
	b, _ := json.Marshal(sum)
	if err := os.WriteFile(*flagOut, b, 0o644); err != nil {
		fmt.Fprintln(os.Stderr, "hx: cannot write summary:", err)
		os.Exit(2)
	}
}

func sameClass(a, b *Violation) bool {
	return a != nil && b != nil && a.Oracle == b.Oracle
}

// report minimises the failing tape, writes the replay file and returns the record.
func report(t *testing.T, property, harness string, seed uint64, tape *simrt.Tape, rec *Rec, run RunFunc) ViolationRec {
	orig := tape.Consumed()
	best := orig
	bestRec := rec
	deadline := time.Now().Add(*flagMinTime)
	try := func(cand []uint32) bool {
		if time.Now().After(deadline) {
			return false
		}
		tp := simrt.ReplayTape(cand)
		r := &Rec{T: t, Tape: tp, Quiet: true, Property: property}
		run(r)
		if r.Abort == "" && sameClass(r.Violation, rec.Violation) {
			best = tp.Consumed()
			bestRec = r
			return true
		}
		return false
	}
	// first make sure the recorded tape reproduces at all
	reproduced := "no"
	if try(orig) {
		reproduced = "yes"
		minimise(&best, try, deadline)
	}
	// final run with the full event log kept
	tp := simrt.ReplayTape(best)
	final := &Rec{T: t, Tape: tp, Quiet: true, Property: property}
	KeepAllEvents = true
	run(final)
	KeepAllEvents = false
	if !sameClass(final.Violation, rec.Violation) {
		final = bestRec
	}
	rp := Replay{Property: property, Harness: harness, Mode: *flagMode, Tier: *flagTier, Seed: seed, Tape: trimZeros(best), Violation: final.Violation,
		GoVersion: runtime.Version(), Sample: final.Sample, Minimised: reproduced == "yes", OrigLen: len(orig)}
	if final.Violation == nil {
		rp.Violation = rec.Violation
	}
	if final.Sim != nil {
		rp.EventHash = final.Sim.Hash()
		for _, e := range final.Sim.Events() {
			rp.Events = append(rp.Events, e.String())
		}
		if len(rp.Events) > 3000 {
			rp.Events = rp.Events[len(rp.Events)-3000:]
		}
	}
	_ = os.MkdirAll(*flagReplays, 0o755)
	path := filepath.Join(*flagReplays, fmt.Sprintf("%s-%s-%d.json", property, strings.TrimPrefix(harness, "TestVerif"), seed))
	b, _ := json.MarshalIndent(rp, "", " ")
	if err := os.WriteFile(path, b, 0o644); err != nil {
		fmt.Fprintln(os.Stderr, "hx: cannot write replay:", err)
		os.Exit(2)
	}
	fmt.Printf("FOUND property=%s oracle=%s seed=%d replay=%s msg=%q\n", property, rp.Violation.Oracle, seed, path, rp.Violation.Message)
	return ViolationRec{Seed: seed, Violation: *rp.Violation, Replay: path, Reproduce: reproduced}
}

// KeepAllEvents asks harnesses to keep the complete event log (replay files).
var KeepAllEvents bool

func trimZeros(v []uint32) []uint32 {
	n := len(v)
	for n > 0 && v[n-1] == 0 {
		n--
	}
	return v[:n]
}

func minimise(best *[]uint32, try func([]uint32) bool, deadline time.Time) {
	changed := true
	for round := 0; changed && round < 6 && time.Now().Before(deadline); round++ {
		changed = false
		// 1. zero the tail (binary search for the shortest live prefix)
		cur := trimZeros(*best)
		lo, hi := 0, len(cur)
		for lo < hi && time.Now().Before(deadline) {
			mid := (lo + hi) / 2
			if try(append([]uint32(nil), cur[:mid]...)) {
				hi = mid
				cur = trimZeros(*best)
				if hi > len(cur) {
					hi = len(cur)
				}
				changed = true
			} else {
				lo = mid + 1
			}
		}
		// 2. zero blocks, 3. delete blocks
		for _, del := range []bool{false, true} {
			cur = trimZeros(*best)
			for size := len(cur) / 2; size >= 1 && time.Now().Before(deadline); size /= 2 {
				for off := 0; off+size <= len(cur) && time.Now().Before(deadline); {
					var cand []uint32
					if del {
						cand = append(append([]uint32(nil), cur[:off]...), cur[off+size:]...)
					} else {
						allZero := true
						for _, x := range cur[off : off+size] {
							if x != 0 {
								allZero = false
							}
						}
						if allZero {
							off += size
							continue
						}
						cand = append([]uint32(nil), cur...)
						for i := off; i < off+size; i++ {
							cand[i] = 0
						}
					}
					if try(cand) {
						cur = trimZeros(*best)
						changed = true
						if del {
							continue
						}
					}
					off += size
				}
				if size > 64 && len(cur) > 4096 {
					// very long tapes: do not go down to single elements in the block passes
					if size <= len(cur)/256 {
						break
					}
				}
			}
		}
		// 4. lower single values
		cur = trimZeros(*best)
		if len(cur) <= 400 {
			for i := 0; i < len(cur) && time.Now().Before(deadline); i++ {
				for cur[i] > 0 {
					cand := append([]uint32(nil), cur...)
					if cand[i] > 1 {
						cand[i] = cand[i] / 2
					} else {
						cand[i] = 0
					}
					if !try(cand) {
						break
					}
					cur = trimZeros(*best)
					changed = true
					if i >= len(cur) {
						break
					}
				}
			}
		}
	}
}

func replayMain(t *testing.T, property, harness string, run RunFunc) {
	b, err := os.ReadFile(*flagReplay)
	if err != nil {
		fmt.Fprintln(os.Stderr, "hx: cannot read replay file:", err)
		os.Exit(2)
	}
	var rp Replay
	if err := json.Unmarshal(b, &rp); err != nil {
		fmt.Fprintln(os.Stderr, "hx: bad replay file:", err)
		os.Exit(2)
	}
	tp := simrt.ReplayTape(rp.Tape)
	rec := &Rec{T: t, Tape: tp, Property: property}
	KeepAllEvents = true
	run(rec)
	hash := ""
	if rec.Sim != nil {
		hash = rec.Sim.Hash()
	}
	same := sameClass(rec.Violation, rp.Violation)
	fmt.Printf("REPLAY property=%s same_violation=%v hash_match=%v hash=%s\n", property, same, hash == rp.EventHash, hash)
	if rec.Violation != nil {
		fmt.Printf("REPLAY-VIOLATION oracle=%s signature=%q msg=%q\n", rec.Violation.Oracle, rec.Violation.Signature, rec.Violation.Message)
	}
	if *flagDump && rec.Sim != nil {
		for _, e := range rec.Sim.Events() {
			fmt.Println("EV", e.String())
		}
	}
	sum := &Summary{Property: property, Harness: harness, Runs: 1, Stats: map[string]int{}, Counters: map[string]int{}}
	if rec.Violation != nil {
		sum.Violations = append(sum.Violations, ViolationRec{Seed: rp.Seed, Violation: *rec.Violation, Replay: *flagReplay, Reproduce: fmt.Sprint(same)})
	}
	sum.Hashes = []string{hash}
	if *flagOut != "" {
		writeSummary(sum)
	}
}
