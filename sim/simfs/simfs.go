// Package simfs is an in-memory source file system (fs.FS) with deterministic
// metadata, scheduler park points and fault injection. See DESIGN.md 2.4.
package simfs

import (
	"io"
	"os"
	"path"
	"sort"
	"strings"
	"syscall"
	"time"

	"github.com/restic/restic/internal/data"
	"github.com/restic/restic/internal/fs"
	"github.com/restic/restic/internal/verif/simrt"
)

// Node is one item of the source tree (also the source model for oracles).
type Node struct {
	Name   string
	Mode   os.FileMode // including type bits
	Data   []byte      // regular files
	Target string      // symlinks
	Kids   []*Node     // directories, kept sorted by name
	MTime  time.Time
	Inode  uint64
	Links  uint64
	UID    uint32
	GID    uint32
	Dev    uint64 // device files
	DevID  uint64
	Xattr  []data.ExtendedAttribute
	// faults (set by the harness)
	FailOpen    bool // OpenFile fails with EACCES
	FailLstat   bool
	FailReadAt  int  // >0: Read fails with EIO after this many bytes
	// owner names as the source machine's user database resolves UID/GID (may be empty)
	User, Group string
	FailClose   bool // closing the file after reading it reports an I/O error
	FailReaddir bool
	// ReaddirCut > 0: listing the directory returns the first ReaddirCut-1
	// names together with an error (getdents failing part-way)
	ReaddirCut int
	Vanish      bool // listed by the parent but gone when opened/lstat'ed
	// Morph, if set, is what the entry has become by the time it is opened for reading
	// (a type change between the first look and the open)
	Morph *Node
}

// IsDir reports whether n is a directory.
func (n *Node) IsDir() bool { return n.Mode&os.ModeType == os.ModeDir }

// IsRegular reports whether n is a regular file.
func (n *Node) IsRegular() bool { return n.Mode&os.ModeType == 0 }

// Kid returns the child with the given name.
func (n *Node) Kid(name string) *Node {
	for _, k := range n.Kids {
		if k.Name == name {
			return k
		}
	}
	return nil
}

// Add inserts (or replaces) a child, keeping Kids sorted.
func (n *Node) Add(k *Node) {
	for i, o := range n.Kids {
		if o.Name == k.Name {
			n.Kids[i] = k
			return
		}
	}
	n.Kids = append(n.Kids, k)
	sort.Slice(n.Kids, func(i, j int) bool { return n.Kids[i].Name < n.Kids[j].Name })
}

// Remove deletes a child.
func (n *Node) Remove(name string) {
	for i, o := range n.Kids {
		if o.Name == name {
			n.Kids = append(n.Kids[:i], n.Kids[i+1:]...)
			return
		}
	}
}

// Clone deep-copies the tree (content slices are shared, they are never modified in place).
func (n *Node) Clone() *Node {
	c := *n
	c.Kids = nil
	for _, k := range n.Kids {
		c.Kids = append(c.Kids, k.Clone())
	}
	return &c
}

// Count returns the number of nodes in the tree.
func (n *Node) Count() int {
	c := 1
	for _, k := range n.Kids {
		c += k.Count()
	}
	return c
}

// FS implements fs.FS over a Node tree rooted at "/".
type FS struct {
	Root  *Node
	Park  bool // open/read/readdir are scheduler park points
	Short int  // >0: reads deliver at most 1..Short bytes (chosen by the scheduler)
	// ShortBudget bounds how many reads are shortened (0 = unlimited); afterwards reads are full
	ShortBudget int
	// EOFWithData: the read that delivers the last bytes of a file may return
	// them together with io.EOF (legal for an io.Reader), chosen by the scheduler
	EOFWithData bool
	shortUsed   int
}

var _ fs.FS = &FS{}

// New returns an FS whose root directory contains the given top-level nodes.
func New(top ...*Node) *FS {
	root := &Node{Name: "/", Mode: os.ModeDir | 0o755, MTime: time.Unix(1500000000, 0), Inode: 1, Links: 1}
	for _, t := range top {
		root.Add(t)
	}
	return &FS{Root: root}
}

func clean(name string) string { return path.Clean("/" + name) }

func (f *FS) lookup(name string) *Node {
	name = clean(name)
	n := f.Root
	if name == "/" {
		return n
	}
	for _, el := range strings.Split(name[1:], "/") {
		if !n.IsDir() {
			return nil
		}
		n = n.Kid(el)
		if n == nil {
			return nil
		}
	}
	return n
}

func pathError(op, name string, err error) *os.PathError {
	return &os.PathError{Op: op, Path: name, Err: err}
}

func (f *FS) info(n *Node) *fs.ExtendedFileInfo {
	fi := &fs.ExtendedFileInfo{
		Name: n.Name, Mode: n.Mode, DeviceID: n.DevID, Inode: n.Inode, Links: n.Links, UID: n.UID, GID: n.GID, Device: n.Dev,
		BlockSize: 4096, Size: int64(len(n.Data)), AccessTime: n.MTime, ModTime: n.MTime, ChangeTime: n.MTime,
	}
	if fi.Links == 0 {
		fi.Links = 1
	}
	fi.Blocks = (fi.Size + 511) / 512
	if n.Mode&os.ModeSymlink != 0 {
		fi.Size = int64(len(n.Target))
	}
	return fi
}

func (f *FS) park(kind, detail string) {
	if f.Park {
		simrt.Park(kind, detail, nil)
	}
}

// OpenFile opens a file or directory.
func (f *FS) OpenFile(name string, flag int, metadataOnly bool) (fs.File, error) {
	f.park("fs", "open "+clean(name))
	n := f.lookup(name)
	if n == nil || n.Vanish {
		return nil, pathError("open", name, syscall.ENOENT)
	}
	if n.FailOpen && !metadataOnly {
		simCount("fs-open-fail")
		return nil, pathError("open", name, syscall.EACCES)
	}
	if n.Mode&os.ModeSymlink != 0 && flag&fs.O_NOFOLLOW != 0 && !metadataOnly {
		return nil, pathError("open", name, syscall.ELOOP)
	}
	return &file{fs: f, n: n, path: clean(name), meta: metadataOnly}, nil
}

func simCount(name string) {
	if s := simrt.Cur(); s != nil {
		s.Count("fault:" + name)
	}
}

// Lstat returns file info.
func (f *FS) Lstat(name string) (*fs.ExtendedFileInfo, error) {
	n := f.lookup(name)
	if n == nil || n.Vanish {
		return nil, pathError("lstat", name, os.ErrNotExist)
	}
	if n.FailLstat {
		simCount("fs-lstat-fail")
		return nil, pathError("lstat", name, syscall.EACCES)
	}
	return f.info(n), nil
}

func (f *FS) Join(elem ...string) string  { return path.Join(elem...) }
func (f *FS) Separator() string           { return "/" }
func (f *FS) IsAbs(p string) bool         { return strings.HasPrefix(p, "/") }
func (f *FS) Abs(p string) (string, error) { return clean(p), nil }
func (f *FS) Clean(p string) string       { return path.Clean(p) }
func (f *FS) VolumeName(string) string    { return "" }
func (f *FS) Base(p string) string        { return path.Base(p) }
func (f *FS) Dir(p string) string         { return path.Dir(p) }

type file struct {
	fs   *FS
	n    *Node
	path string
	meta bool
	off  int
}

var _ fs.File = &file{}

func (f *file) MakeReadable() error {
	if f.n.FailOpen {
		simCount("fs-open-fail")
		return pathError("open", f.path, syscall.EACCES)
	}
	if f.n.Morph != nil {
		if f.n.Morph.Mode&os.ModeSymlink != 0 {
			// the entry was replaced by a symlink after the lstat: opening with O_NOFOLLOW fails
			simCount("fs-became-symlink")
			return pathError("open", f.path, syscall.ELOOP)
		}
		simCount("fs-type-changed")
		f.n = f.n.Morph
	}
	f.meta = false
	return nil
}

func (f *file) Close() error {
	if f.n.FailClose && !f.meta {
		simCount("fs-close-fail")
		return pathError("close", f.path, syscall.EIO)
	}
	return nil
}

func (f *file) Stat() (*fs.ExtendedFileInfo, error) { return f.fs.info(f.n), nil }

func (f *file) Readdirnames(n int) ([]string, error) {
	if !f.n.IsDir() {
		return nil, pathError("readdirnames", f.path, syscall.ENOTDIR)
	}
	f.fs.park("fs", "readdir "+f.path)
	if f.n.FailReaddir {
		simCount("fs-readdir-fail")
		return nil, pathError("readdirnames", f.path, syscall.EIO)
	}
	var out []string
	for _, k := range f.n.Kids {
		out = append(out, k.Name)
	}
	if f.n.ReaddirCut > 0 {
		simCount("fs-readdir-partial")
		return out[:min(f.n.ReaddirCut-1, len(out))], pathError("readdirnames", f.path, syscall.EIO)
	}
	return out, nil
}

func (f *file) Read(p []byte) (int, error) {
	if !f.n.IsRegular() {
		return 0, pathError("read", f.path, syscall.EISDIR)
	}
	if f.meta {
		return 0, pathError("read", f.path, os.ErrInvalid)
	}
	limit := len(p)
	eofWithData := false
	if f.fs.Park {
		simrt.Park("fs", "read "+f.path, func(t *simrt.Tape) string {
			if f.fs.Short > 0 && limit > 1 && (f.fs.ShortBudget == 0 || f.fs.shortUsed < f.fs.ShortBudget) {
				f.fs.shortUsed++
				limit = 1 + t.Choose(min(f.fs.Short, limit))
			}
			if f.fs.EOFWithData && f.off < len(f.n.Data) && f.off+limit >= len(f.n.Data) && t.Choose(2) == 1 {
				eofWithData = true
				return "eof-with-data"
			}
			return ""
		})
	}
	if f.n.FailReadAt > 0 && f.off+limit > f.n.FailReadAt {
		limit = f.n.FailReadAt - f.off
		if limit <= 0 {
			simCount("fs-read-fail")
			return 0, pathError("read", f.path, syscall.EIO)
		}
	}
	if f.off >= len(f.n.Data) {
		return 0, io.EOF
	}
	n := copy(p[:limit], f.n.Data[f.off:])
	f.off += n
	if eofWithData && f.off >= len(f.n.Data) && (f.n.FailReadAt <= 0 || f.n.FailReadAt > len(f.n.Data)) {
		simrt.Probe("fs-eof-with-data") // legal reader behaviour, not a fault
		return n, io.EOF
	}
	return n, nil
}

func (f *file) ToNode(_ bool, _ func(format string, args ...any)) (*data.Node, error) {
	n := f.n
	mask := os.ModePerm | os.ModeType | os.ModeSetuid | os.ModeSetgid | os.ModeSticky
	node := &data.Node{
		Path: f.path, Name: n.Name, Mode: n.Mode & mask, ModTime: n.MTime, AccessTime: n.MTime, ChangeTime: n.MTime,
		UID: n.UID, GID: n.GID, Inode: n.Inode, DeviceID: n.DevID, Links: n.Links,
		User: n.User, Group: n.Group,
	}
	if node.Links == 0 {
		node.Links = 1
	}
	switch n.Mode & os.ModeType {
	case 0:
		node.Type = data.NodeTypeFile
		node.Size = uint64(len(n.Data))
	case os.ModeDir:
		node.Type = data.NodeTypeDir
	case os.ModeSymlink:
		node.Type = data.NodeTypeSymlink
		node.LinkTarget = n.Target
	case os.ModeDevice | os.ModeCharDevice:
		node.Type = data.NodeTypeCharDev
		node.Device = n.Dev
	case os.ModeDevice:
		node.Type = data.NodeTypeDev
		node.Device = n.Dev
	case os.ModeNamedPipe:
		node.Type = data.NodeTypeFifo
	case os.ModeSocket:
		node.Type = data.NodeTypeSocket
	default:
		node.Type = data.NodeTypeIrregular
	}
	if len(n.Xattr) > 0 {
		node.ExtendedAttributes = append([]data.ExtendedAttribute(nil), n.Xattr...)
	}
	return node, nil
}
