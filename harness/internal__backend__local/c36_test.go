package local

import (
	"bytes"
	"context"
	"crypto/sha256"
	"encoding/hex"
	"fmt"
	"io"
	"sort"
	"strings"
	"testing"
	"time"

	"github.com/restic/restic/internal/backend"
	"github.com/restic/restic/internal/verif/crashdisk"
	"github.com/restic/restic/internal/verif/hx"
	"github.com/restic/restic/internal/verif/simrt"
)

// c36Reader is a RewindReader that hands the data out in chunks (so that a
// Save consists of several writes).
type c36Reader struct {
	data  []byte
	pos   int
	chunk int
}

func (r *c36Reader) Read(p []byte) (int, error) {
	if r.pos >= len(r.data) {
		return 0, io.EOF
	}
	n := len(p)
	if r.chunk > 0 && n > r.chunk {
		n = r.chunk
	}
	n = copy(p[:n], r.data[r.pos:])
	r.pos += n
	return n, nil
}
func (r *c36Reader) Rewind() error { r.pos = 0; return nil }
func (r *c36Reader) Length() int64 { return int64(len(r.data)) }
func (r *c36Reader) Hash() []byte  { return nil }

type c36Save struct {
	h       backend.Handle
	data    []byte
	chunk   int
	retries int
}

func c36Content(tag string, size int) []byte {
	out := make([]byte, 0, size+32)
	i := 0
	for len(out) < size {
		h := sha256.Sum256([]byte(fmt.Sprintf("%s/%d", tag, i)))
		out = append(out, h[:]...)
		i++
	}
	return out[:size]
}

func c36ValidID(s string) bool {
	if len(s) != 64 {
		return false
	}
	_, err := hex.DecodeString(s)
	return err == nil
}

// c36Examine looks at a disk through the real backend: every listed entry
// whose name is a valid ID (or "config") must have one of the complete
// contents that were ever passed to Save under that name.
func c36Examine(r *hx.Rec, d *crashdisk.Disk, what string, allowed map[string][][]byte) {
	crashdisk.Mount(d)
	ctx := context.Background()
	be, err := Open(ctx, Config{Path: "/repo", Connections: 2}, nil)
	if err != nil {
		r.Fail("open", "open-failed", "%s: opening the backend failed: %v", what, err)
		return
	}
	types := []backend.FileType{backend.PackFile, backend.KeyFile, backend.LockFile, backend.SnapshotFile, backend.IndexFile, backend.ConfigFile}
	for _, ft := range types {
		var names []string
		if ft == backend.ConfigFile {
			if _, err := be.Stat(ctx, backend.Handle{Type: ft}); err == nil {
				names = []string{"config"}
			}
		} else {
			err := be.List(ctx, ft, func(fi backend.FileInfo) error {
				names = append(names, fi.Name)
				return nil
			})
			if err != nil {
				r.Fail("list", "list-failed", "%s: List(%v) failed: %v", what, ft, err)
				continue
			}
		}
		for _, name := range names {
			key := ft.String() + "/" + name
			if ft != backend.ConfigFile && !c36ValidID(name) {
				// what Repository.List skips: temporary files and other debris
				r.Count("non_id_names_listed", 1)
				continue
			}
			r.Count("files_examined", 1)
			want, ok := allowed[key]
			if !ok {
				r.Fail("listing", "unknown-file-listed", "%s: %s is listed as a repository file but was never saved (a temporary file?)\ndisk:\n  %s", what, key, strings.Join(d.Tree(), "\n  "))
				continue
			}
			var got []byte
			err := be.Load(ctx, backend.Handle{Type: ft, Name: name}, 0, 0, func(rd io.Reader) error {
				var err error
				got, err = io.ReadAll(rd)
				return err
			})
			if err != nil {
				r.Fail("content", "listed-file-unreadable", "%s: %s is listed but cannot be loaded: %v", what, key, err)
				continue
			}
			match := false
			for _, w := range want {
				if bytes.Equal(w, got) {
					match = true
				}
			}
			if !match {
				r.Fail("content", "partial-file-under-final-name", "%s: %s exists under its final name with %d bytes that are not the complete content (%d bytes expected)\ndisk:\n  %s", what, key, len(got), len(want[0]), strings.Join(d.Tree(), "\n  "))
			}
		}
	}
}

// TestVerifC36: the real local backend over a simulated disk with an explicit
// persistence model. Savers (and a concurrent reader) run under the seeded
// scheduler, file system calls fail with generated errors, and before any
// mutating step a crash image may be taken in which an arbitrary subset of
// the not yet fsynced directory operations and data writes persisted.
func TestVerifC36(t *testing.T) {
	hx.Main(t, "C36", func(r *hx.Rec) {
		tp := r.Tape
		s := simrt.New(tp)
		r.Sim = s
		if hx.KeepAllEvents {
			s.KeepEvents = -1
		}
		nSavers := tp.Range(1, 3)
		types := []backend.FileType{backend.PackFile, backend.PackFile, backend.IndexFile, backend.SnapshotFile, backend.LockFile, backend.KeyFile, backend.ConfigFile}
		sizes := []int{1, 30, 64, 65, 200, 640, 1500}
		allowed := map[string][][]byte{}
		plans := make([][]c36Save, nSavers)
		var desc []string
		nfile := 0
		for i := range plans {
			n := tp.Range(1, 3)
			for k := 0; k < n; k++ {
				ft := types[tp.Choose(len(types))]
				size := sizes[tp.Choose(len(sizes))]
				nfile++
				data := c36Content(fmt.Sprintf("f%d", nfile), size)
				sum := sha256.Sum256(data)
				h := backend.Handle{Type: ft, Name: hex.EncodeToString(sum[:])}
				if ft == backend.ConfigFile {
					h.Name = ""
				}
				sv := c36Save{h: h, data: data, chunk: []int{0, 0, 64, 100, 17}[tp.Choose(5)], retries: tp.Choose(3)}
				plans[i] = append(plans[i], sv)
				key := ft.String() + "/" + h.Name
				if ft == backend.ConfigFile {
					key = ft.String() + "/config"
				}
				allowed[key] = append(allowed[key], data)
				desc = append(desc, fmt.Sprintf("s%d:%v/%d bytes/chunk %d", i, ft, size, sv.chunk))
			}
		}
		preexisting := tp.Choose(3) == 0 // the first planned file already exists (a retried upload)
		missingDir := tp.Choose(3) == 0  // data subdirectories do not exist yet
		withReader := tp.Choose(2) == 0
		faulty := tp.Choose(3) != 0
		var f crashdisk.Faults
		if faulty {
			rate := []int{20, 60, 150}[tp.Choose(3)]
			f = crashdisk.Faults{Create: rate, Write: rate, Sync: rate, Close: rate, Rename: rate, OpenDir: rate, DirSync: rate, Chmod: rate, Remove: rate, Prealloc: rate, Mkdir: rate, Budget: tp.Range(1, 4)}
		}
		r.Set("plan", strings.Join(desc, " "))
		r.Set("preexisting", preexisting)
		r.Set("missing_dirs", missingDir)
		r.Set("faults", faulty)
		r.CaseKey = fmt.Sprint(desc, preexisting, missingDir, faulty)
		simrt.Run(r.T, s, 60*time.Second, func() {
			ctx := context.Background()
			disk := crashdisk.New(s)
			crashdisk.Mount(disk)
			s.SetFree(true)
			be, err := Create(ctx, Config{Path: "/repo", Connections: 2}, nil)
			if err != nil {
				r.Abort = "create: " + err.Error()
				return
			}
			if preexisting {
				p := plans[0][0]
				if err := be.Save(ctx, p.h, &c36Reader{data: p.data}); err != nil {
					r.Abort = "setup save: " + err.Error()
					return
				}
			}
			if missingDir {
				for i := 0; i < 256; i++ {
					_ = crashdisk.Remove(fmt.Sprintf("/repo/data/%02x", i))
				}
			}
			disk.SyncAll()
			s.SetFree(false)
			disk.F = f
			disk.ImageRate = []int{30, 100, 300}[tp.Choose(3)]
			disk.MaxImages = 8
			acked := map[string]bool{}
			for i := range plans {
				i := i
				s.Go(fmt.Sprintf("saver%d", i), nil, func() {
					for _, p := range plans[i] {
						for a := 0; a <= p.retries; a++ {
							err := be.Save(ctx, p.h, &c36Reader{data: p.data, chunk: p.chunk})
							if err == nil {
								acked[p.h.Type.String()+"/"+p.h.Name] = true
								r.Count("saves_ok", 1)
								break
							}
							r.Count("saves_failed", 1)
						}
					}
				})
			}
			if withReader {
				s.Go("reader", nil, func() {
					for round := 0; round < 3; round++ {
						for _, ft := range []backend.FileType{backend.PackFile, backend.IndexFile, backend.SnapshotFile, backend.LockFile, backend.KeyFile} {
							var names []string
							_ = be.List(ctx, ft, func(fi backend.FileInfo) error { names = append(names, fi.Name); return nil })
							for _, name := range names {
								if !c36ValidID(name) {
									continue
								}
								key := ft.String() + "/" + name
								var got []byte
								err := be.Load(ctx, backend.Handle{Type: ft, Name: name}, 0, 0, func(rd io.Reader) error {
									var err error
									got, err = io.ReadAll(rd)
									return err
								})
								if err != nil {
									continue // removed or unreadable: no content exposed
								}
								ok := false
								for _, w := range allowed[key] {
									ok = ok || bytes.Equal(w, got)
								}
								r.Count("live_reads", 1)
								if !ok {
									r.Fail("content", "partial-file-visible-while-saving", "a concurrent reader found %s under its final name with %d bytes that are not the complete content", key, len(got))
								}
							}
						}
					}
				})
			}
			s.Loop()
			r.SimTime = s.Elapsed()
			if s.Panic != "" {
				r.Fail("panic", "panic", "%s", s.Panic)
				return
			}
			if s.Deadlock != "" {
				r.Fail("liveness", "deadlock", "saves never finished\n%s", s.Deadlock)
				return
			}
			images := append([]*crashdisk.Image(nil), disk.Images...)
			images = append(images, disk.FinalImage(tp))
			s.SetFree(true)
			defer crashdisk.Mount(nil)
			// the state every process sees without a crash
			c36Examine(r, disk, "after the run (no crash)", allowed)
			// a save that was acknowledged without faults in play must be there
			if !faulty {
				for i := range plans {
					for _, p := range plans[i] {
						if !acked[p.h.Type.String()+"/"+p.h.Name] {
							r.Fail("save", "fault-free-save-failed", "Save of %v failed without any injected fault", p.h)
						}
					}
				}
			}
			kinds := map[string]bool{}
			for _, img := range images {
				r.Count("crash_images", 1)
				c36Examine(r, img.Disk, fmt.Sprintf("crash at step %d (%s)", img.Step, img.Note), allowed)
				kinds[strings.SplitN(img.Note, ":", 2)[0]] = true
			}
			var ks []string
			for k := range kinds {
				ks = append(ks, k)
			}
			sort.Strings(ks)
			r.Set("crash_points", strings.Join(ks, ", "))
			r.Nontriv = len(images) > 1
		})
	})
}
