package main

import (
	"fmt"
	"sort"
	"testing"
	"time"

	"github.com/restic/restic/internal/verif/hx"
	"github.com/restic/restic/internal/verif/model"
	"github.com/restic/restic/internal/verif/simfs"
	"github.com/restic/restic/internal/verif/simrt"
)

// blobCensus counts in how many packs (and how often) every blob occurs.
func blobCensus(view *model.StoreView) map[string]int {
	c := map[string]int{}
	for _, pc := range view.Packs {
		for _, b := range pc.Blobs {
			c[b.Key()]++
		}
	}
	return c
}

// TestVerifC16: identical content is stored once. Trees with many duplicate
// files and duplicate subdirectories, high read concurrency, all mutex sites
// yielding (so the order of the pending-blob critical sections is scheduled).
// After a backup every blob occurs exactly once in the uploaded packs; a
// second backup of the unchanged source (with the parent and with --force)
// adds no blob.
func TestVerifC16(t *testing.T) {
	hx.Main(t, "C16", func(r *hx.Rec) {
		tp := r.Tape
		cfg := genCfg(tp)
		cfg.YieldMu = tp.Choose(4) != 0
		cfg.Procs = tp.Range(1, 8)
		w := newWorld(r, cfg)
		readConc := uint(tp.Range(1, 8))
		r.Set("cfg", cfg.String())
		r.Set("read_concurrency", readConc)
		simrt.Run(r.T, w.s, 15*time.Minute, func() {
			w.begin()
			defer w.end()
			if !w.setup() {
				return
			}
			// a tree with heavy duplication
			root := w.newDir("src")
			nContents := tp.Range(1, 4)
			if cfg.IndexFull > 0 && tp.Choose(2) == 0 {
				// enough distinct blobs for the in-memory index to become full (and be saved and merged)
				// while further copies of already saved content are still being submitted
				nContents = tp.Range(5, 14)
			}
			var contents [][]byte
			for i := 0; i < nContents; i++ {
				sz := []int{1, 300, 5000, 40000, 70000}[tp.Choose(5)]
				contents = append(contents, w.newFile("x", sz, tp.Choose(3)).Data)
			}
			nFiles := tp.Range(2, 24)
			if nContents > 4 {
				nFiles = tp.Range(20, 48)
			}
			sub := w.newDir("dup")
			for i := 0; i < nFiles; i++ {
				f := w.newFile(fmt.Sprintf("f%02d", i), 0, 0)
				f.Data = contents[tp.Choose(len(contents))]
				root.Add(f)
				if tp.Choose(3) == 0 {
					g := *f
					sub.Add(&g)
				}
			}
			if len(sub.Kids) > 0 {
				// the same subdirectory (same metadata, same content) several times
				nDup := tp.Range(1, 4)
				for i := 0; i < nDup; i++ {
					d := sub.Clone()
					d.Name = fmt.Sprintf("dup%d", i)
					root.Add(d)
				}
			}
			r.Set("files", nFiles)
			r.Set("distinct_contents", nContents)
			opts := BackupOptions{ReadConcurrency: readConc}
			if !w.backupOK(root, opts, "first backup") {
				return
			}
			w.postRun()
			view := model.View(w.key, w.store.Clone(), false)
			census := blobCensus(view)
			var keys []string
			for k := range census {
				keys = append(keys, k)
			}
			sort.Strings(keys)
			for _, k := range keys {
				if census[k] != 1 {
					r.Fail("stored-once", "blob-stored-twice", "after one backup blob %s is contained %d times in the uploaded packs", k[:13], census[k])
					return
				}
			}
			r.Count("blobs", len(census))
			// the model's distinct non-empty contents bound the number of data blobs from above
			dataBlobs := 0
			for _, k := range keys {
				if k[:4] == "data" {
					dataBlobs++
				}
			}
			if dataBlobs > nContents {
				r.Fail("stored-once", "too-many-data-blobs", "%d data blobs stored for %d distinct file contents (each below the minimum chunk size)", dataBlobs, nContents)
				return
			}
			// second and third backup of the unchanged source
			for i, o := range []BackupOptions{{ReadConcurrency: readConc}, {ReadConcurrency: readConc, Force: true}} {
				if !w.backupOK(root, o, fmt.Sprintf("repeat backup %d", i)) {
					return
				}
				w.postRun()
				v2 := model.View(w.key, w.store.Clone(), false)
				c2 := blobCensus(v2)
				for k, n := range c2 {
					if census[k] == 0 {
						r.Fail("unchanged-adds-nothing", "new-blob-on-unchanged-source", "backup %d of the unchanged source (force=%v) stored a new blob %s", i+2, o.Force, k[:13])
						return
					}
					if n != 1 {
						r.Fail("stored-once", "blob-stored-twice", "after backup %d blob %s is contained %d times in the packs", i+2, k[:13], n)
						return
					}
				}
			}
			w.verifyAll("content", "after three backups")
			_ = simfs.New
		})
	})
}
