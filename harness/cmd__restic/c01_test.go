package main

import (
	"bytes"
	"context"
	"encoding/json"
	"fmt"
	"os"
	"path/filepath"
	"sort"
	"strconv"
	"syscall"
	"testing"
	"time"

	"github.com/pkg/xattr"
	"github.com/restic/restic/internal/data"
	"github.com/restic/restic/internal/global"
	"github.com/restic/restic/internal/ui"
	"github.com/restic/restic/internal/verif/hk"
	"github.com/restic/restic/internal/verif/hx"
	"github.com/restic/restic/internal/verif/model"
	"github.com/restic/restic/internal/verif/simbe"
	"github.com/restic/restic/internal/verif/simfs"
	"github.com/restic/restic/internal/verif/simrt"
)

var oddNames = []string{
	"plain", "sp ace", "quote\"d", "back\\slash", "new\nline", "tab\there", "\xff\xfe-not-utf8", "uni-ü- -sep", "'single'",
	"glob*?[x]", ".hidden", "-dash", "R&D.bin", "a<b>c", "amp&lt;", "trailing ", "\x01\x02ctl", "\xc3\x28bad-seq", "emoji-\U0001F600", "dollar$var", "percent%41",
}

var oddTargets = []string{"../target", "/abs/target", "sp ace", "\xff\xfe-raw-bytes", "uni- ", "a\"b\\c", "x"}

var oddTimes = []time.Time{
	time.Date(2015, 3, 4, 5, 6, 7, 123456789, time.UTC),
	time.Date(1970, 1, 1, 0, 0, 1, 0, time.UTC),
	time.Date(1955, 11, 5, 6, 0, 0, 1, time.UTC),
	time.Date(2040, 2, 29, 23, 59, 59, 999999999, time.UTC),
	time.Date(2200, 1, 1, 0, 0, 0, 500, time.UTC),
	time.Date(1999, 12, 31, 23, 59, 59, 1000, time.UTC),
}

// genRichTree builds a source tree with odd names, special files, hard links,
// xattrs, odd times and modes. multiChunk allows files above the minimum chunk size.
func (w *world) genRichTree(maxItems int, multiChunk bool, withXattr bool) *simfs.Node {
	tp := w.tp
	root := w.newDir("src")
	dirs := []*simfs.Node{root}
	used := map[*simfs.Node]map[string]bool{root: {}}
	n := tp.Range(1, maxItems)
	pick := func(parent *simfs.Node) string {
		for try := 0; try < 10; try++ {
			nm := oddNames[tp.Choose(len(oddNames))]
			if tp.Choose(4) == 0 {
				nm = fmt.Sprintf("%s-%d", nm, tp.Choose(50))
			}
			if !used[parent][nm] {
				used[parent][nm] = true
				return nm
			}
		}
		w.inode++
		nm := fmt.Sprintf("n%d", w.inode)
		used[parent][nm] = true
		return nm
	}
	meta := func(nd *simfs.Node) {
		nd.MTime = oddTimes[tp.Choose(len(oddTimes))]
		nd.UID = []uint32{0, 1000, 65534}[tp.Choose(3)]
		nd.GID = []uint32{0, 1000, 65534}[tp.Choose(3)]
		// names as recorded by the machine that made the backup; a repository fed by several hosts may
		// hold different names for one numeric ID
		nd.User = []string{"", "root", "alice", "bob"}[tp.Choose(4)]
		nd.Group = []string{"", "root", "wheel", "staff"}[tp.Choose(4)]
		if withXattr && tp.Choose(4) == 0 && nd.Mode&os.ModeSymlink == 0 && nd.Mode&os.ModeType&^os.ModeDir == 0 {
			val := make([]byte, tp.Choose(40))
			w.st.Fill(val)
			nd.Xattr = []data.ExtendedAttribute{{Name: "user.verif", Value: val}}
			if tp.Choose(2) == 0 {
				nd.Xattr = append(nd.Xattr, data.ExtendedAttribute{Name: "user.verif.second", Value: []byte("x")})
			}
		}
	}
	var files []*simfs.Node
	for i := 0; i < n; i++ {
		parent := dirs[tp.Choose(len(dirs))]
		switch tp.Choose(10) {
		case 0:
			d := w.newDir(pick(parent))
			d.Mode = os.ModeDir | []os.FileMode{0o755, 0o700, 0o777 | os.ModeSticky, 0o2755 &^ 0o2000 | os.ModeSetgid}[tp.Choose(4)]
			meta(d)
			parent.Add(d)
			dirs = append(dirs, d)
			used[d] = map[string]bool{}
		case 1:
			w.inode++
			l := &simfs.Node{Name: pick(parent), Mode: os.ModeSymlink | 0o777, Target: oddTargets[tp.Choose(len(oddTargets))], Inode: 100 + w.inode, Links: 1}
			meta(l)
			parent.Add(l)
		case 2:
			w.inode++
			f := &simfs.Node{Name: pick(parent), Mode: os.ModeNamedPipe | 0o640, Inode: 100 + w.inode, Links: 1}
			meta(f)
			parent.Add(f)
		case 3:
			w.inode++
			mode := os.ModeDevice | os.ModeCharDevice | 0o660
			if tp.Choose(2) == 0 {
				mode = os.ModeDevice | 0o660
			}
			d := &simfs.Node{Name: pick(parent), Mode: mode, Dev: uint64([]int{0x0103, 0x0801, 0x1234}[tp.Choose(3)]), Inode: 100 + w.inode, Links: 1}
			meta(d)
			parent.Add(d)
		case 4:
			// a hard link to an existing file
			if len(files) > 0 {
				src := files[tp.Choose(len(files))]
				src.Links++
				ln := *src
				ln.Name = pick(parent)
				parent.Add(&ln)
				// all members of the group must agree on the link count
				src.DevID = 7
				for _, g := range files {
					if g.Inode == src.Inode {
						g.Links = src.Links
						g.DevID = 7
					}
				}
				lnp := parent.Kid(ln.Name)
				lnp.Links = src.Links
				lnp.DevID = 7
				files = append(files, lnp)
				continue
			}
			fallthrough
		default:
			sizes := []int{0, 1, 4096, 70000, 300000}
			if multiChunk {
				sizes = append(sizes, 700000, 1400000)
			}
			sz := sizes[tp.Choose(len(sizes))]
			kind := tp.Choose(3)
			w.inode++
			f := &simfs.Node{Name: pick(parent), Mode: []os.FileMode{0o644, 0o600, 0o755, 0o755 | os.ModeSetuid, 0o444}[tp.Choose(5)], Data: hk.Content(w.st, sz, kind), Inode: 100 + w.inode, Links: 1}
			meta(f)
			parent.Add(f)
			files = append(files, f)
		}
	}
	meta(root)
	root.Mode = os.ModeDir | 0o755
	return root
}

func xattrSupported(dir string) bool {
	p := filepath.Join(dir, "xattr-probe")
	if err := os.WriteFile(p, nil, 0o600); err != nil {
		return false
	}
	defer os.Remove(p)
	return xattr.LSet(p, "user.verif", []byte("1")) == nil
}

// compareRestored compares the directory tree restored at path with the model.
func compareRestored(path string, want *simfs.Node, inodes map[uint64]uint64, checkXattr bool) string {
	fi, err := os.Lstat(path)
	if err != nil {
		return fmt.Sprintf("%q: %v", path, err)
	}
	st := fi.Sys().(*syscall.Stat_t)
	wantType := want.Mode & os.ModeType
	if fi.Mode()&os.ModeType != wantType {
		return fmt.Sprintf("%q: type %v, want %v", path, fi.Mode()&os.ModeType, wantType)
	}
	special := os.ModeSetuid | os.ModeSetgid | os.ModeSticky
	if wantType != os.ModeSymlink {
		if fi.Mode().Perm() != want.Mode.Perm() || fi.Mode()&special != want.Mode&special {
			return fmt.Sprintf("%q: mode %v, want %v", path, fi.Mode(), want.Mode)
		}
	}
	if st.Uid != want.UID || st.Gid != want.GID {
		return fmt.Sprintf("%q: owner %d:%d, want %d:%d", path, st.Uid, st.Gid, want.UID, want.GID)
	}
	if !fi.ModTime().Equal(want.MTime) {
		return fmt.Sprintf("%q: mtime %v, want %v", path, fi.ModTime().UTC(), want.MTime)
	}
	switch {
	case want.IsDir():
		ents, err := os.ReadDir(path)
		if err != nil {
			return fmt.Sprintf("%q: %v", path, err)
		}
		var got []string
		for _, e := range ents {
			got = append(got, e.Name())
		}
		sort.Strings(got)
		var exp []string
		for _, k := range want.Kids {
			exp = append(exp, k.Name)
		}
		sort.Strings(exp)
		if fmt.Sprintf("%q", got) != fmt.Sprintf("%q", exp) {
			return fmt.Sprintf("%q: entries %q, want %q", path, got, exp)
		}
		for _, k := range want.Kids {
			if d := compareRestored(filepath.Join(path, k.Name), k, inodes, checkXattr); d != "" {
				return d
			}
		}
	case want.IsRegular():
		b, err := os.ReadFile(path)
		if err != nil {
			return fmt.Sprintf("%q: %v", path, err)
		}
		if !bytes.Equal(b, want.Data) {
			return fmt.Sprintf("%q: content differs (%d bytes restored, %d in source)", path, len(b), len(want.Data))
		}
		if want.Links > 1 {
			if prev, ok := inodes[want.Inode]; ok && prev != st.Ino {
				return fmt.Sprintf("%q: not hard-linked to the other members of its group", path)
			}
			inodes[want.Inode] = st.Ino
			if uint64(st.Nlink) != want.Links {
				return fmt.Sprintf("%q: link count %d, want %d", path, st.Nlink, want.Links)
			}
		} else if st.Nlink != 1 {
			return fmt.Sprintf("%q: link count %d, want 1", path, st.Nlink)
		}
	case wantType == os.ModeSymlink:
		t, err := os.Readlink(path)
		if err != nil || t != want.Target {
			return fmt.Sprintf("%q: link target %q (%v), want %q", path, t, err, want.Target)
		}
	case wantType&os.ModeDevice != 0:
		if uint64(st.Rdev) != want.Dev {
			return fmt.Sprintf("%q: device number %#x, want %#x", path, st.Rdev, want.Dev)
		}
	}
	if checkXattr && wantType != os.ModeSymlink {
		names, err := xattr.LList(path)
		if err != nil {
			return fmt.Sprintf("%q: listxattr: %v", path, err)
		}
		var got []string
		for _, n := range names {
			if len(n) > 5 && n[:5] == "user." {
				got = append(got, n)
			}
		}
		sort.Strings(got)
		var exp []string
		for _, x := range want.Xattr {
			exp = append(exp, x.Name)
		}
		sort.Strings(exp)
		if fmt.Sprint(got) != fmt.Sprint(exp) {
			return fmt.Sprintf("%q: xattrs %v, want %v", path, got, exp)
		}
		for _, x := range want.Xattr {
			v, err := xattr.LGet(path, x.Name)
			if err != nil || !bytes.Equal(v, x.Value) {
				return fmt.Sprintf("%q: xattr %s = %x (%v), want %x", path, x.Name, v, err, x.Value)
			}
		}
	}
	return ""
}

// TestVerifC01: backup then restore reproduces the source tree exactly. Rich
// generated trees (odd names, special files, hard links, xattrs, odd times),
// the real runBackup over the simulated source FS and the real runRestore into
// a scratch directory, crossed with format, compression, pack size, read
// concurrency, virtual cores and the schedule of savers, uploads and pack
// downloads; in a third of the runs transient errors the retry layer absorbs.
func TestVerifC01(t *testing.T) {
	hx.Main(t, "C01", func(r *hx.Rec) {
		tp := r.Tape
		cfg := genCfg(tp)
		w := newWorld(r, cfg)
		readConc := uint(tp.Range(1, 8))
		faulty := tp.Choose(3) == 0
		sparse := tp.Choose(3) == 0
		r.Set("cfg", cfg.String())
		r.Set("read_concurrency", readConc)
		r.Set("transient_errors", faulty)
		r.Set("restore_sparse", sparse)
		simrt.Run(r.T, w.s, 15*time.Minute, func() {
			w.begin()
			defer w.end()
			if !w.setup() {
				return
			}
			dir, err := os.MkdirTemp("", "verif-c01-")
			if err != nil {
				r.Abort = err.Error()
				return
			}
			defer os.RemoveAll(dir)
			xa := xattrSupported(dir)
			r.Set("xattr_on_scratch_fs", xa)
			tree := w.genRichTree(16, true, xa)
			r.Set("nodes", tree.Count())
			pr := w.newProc("backup")
			if faulty {
				pr.cl.F = simbe.Faults{ErrBefore: 40, ErrAfter: 40, PartialRead: 30, ListFail: 20, Budget: 3}
			}
			res := w.cmdBackup(pr, tree, BackupOptions{ReadConcurrency: readConc})
			w.postRun()
			if res.Err != nil || res.NewID == "" {
				if w.faultsFired() == 0 {
					r.Fail("backup", "backup-failed", "fault-free backup failed: %v\n%s", res.Err, firstLines(pr.term.Err(), 6))
				}
				return
			}
			w.snaps[res.NewID] = &snapModel{ID: res.NewID, Root: tree}
			// logical restore through the read path
			w.verifyAll("logical-restore", "after backup")
			// real restore
			rp := w.newProc("restore")
			if faulty {
				rp.cl.F = simbe.Faults{ErrBefore: 40, PartialRead: 40, Budget: 3}
			}
			target := filepath.Join(dir, "out")
			rerr := rp.run(func(ctx context.Context, g global.Options, term ui.Terminal) error {
				return runRestore(ctx, RestoreOptions{Target: target, Sparse: sparse}, g, term, []string{res.NewID})
			})
			w.postRun()
			if rerr != nil {
				if w.faultsFired() == 0 || !faulty {
					r.Fail("restore", "restore-failed", "restore failed without injected faults: %v\n%s", rerr, firstLines(rp.term.Err(), 8))
				}
				return
			}
			if d := compareRestored(filepath.Join(target, "src"), tree, map[uint64]uint64{}, xa); d != "" {
				r.Fail("round-trip", "restored-tree-differs", "restored tree differs from the source: %s", d)
			}
		})
	})
}

// TestVerifC41: trees are encoded deterministically. The same rich source
// tree is backed up into three repositories sharing the chunker parameters,
// each under a different schedule, virtual core count and read concurrency;
// the root tree IDs and all tree blobs must be identical, every tree blob's
// entries strictly sorted by name (independent decoder), and every node must
// decode unchanged through the real read path.
func TestVerifC41(t *testing.T) {
	hx.Main(t, "C41", func(r *hx.Rec) {
		tp := r.Tape
		cfg := genCfg(tp)
		cfg.YieldMu = tp.Choose(2) == 0
		w := newWorld(r, cfg)
		r.Set("cfg", cfg.String())
		simrt.Run(r.T, w.s, 15*time.Minute, func() {
			w.begin()
			defer w.end()
			if !w.setup() {
				return
			}
			tree := w.genRichTree(18, true, true)
			r.Set("nodes", tree.Count())
			type result struct {
				tree  string
				blobs map[string]bool
			}
			var results []result
			repos := []string{"main", "r2", "r3"}
			for i, name := range repos {
				if i > 0 {
					st := simbe.NewStore(w.s)
					w.stores[name] = st
					var err error
					w.free(func() {
						pr := w.newProcOn("init", name)
						err = pr.run(func(ctx context.Context, g global.Options, term ui.Terminal) error {
							o := InitOptions{RepositoryVersion: fmt.Sprint(cfg.Version), CopyChunkerParameters: true}
							o.SecondaryRepoOptions.Repo = "sim:main"
							o.SecondaryRepoOptions.Password = w.pw
							return runInit(ctx, o, g, nil, term)
						})
					})
					if err != nil {
						r.Abort = "init " + name + ": " + err.Error()
						return
					}
				}
				// a different concurrency setting and (through the tape) schedule per repository
				w.s.Procs = tp.Range(1, 8)
				pr := w.newProcOn("backup", name)
				sfs := simfs.New(tree)
				sfs.Park = tp.Choose(2) == 0
				w.srcMu.Lock()
				w.src[pr.p.Name] = sfs
				w.srcMu.Unlock()
				opts := BackupOptions{ReadConcurrency: uint(tp.Range(1, 8)), Host: "h"}
				opts.GroupBy = data.SnapshotGroupByOptions{Host: true, Path: true}
				err := pr.run(func(ctx context.Context, g global.Options, term ui.Terminal) error {
					return runBackup(ctx, opts, g, term, []string{"src"})
				})
				w.postRun()
				if err != nil {
					r.Fail("backup", "backup-failed", "backup into repository %s failed: %v\n%s", name, err, firstLines(pr.term.Err(), 6))
					return
				}
				// decode this repository independently
				var key = w.key
				var kerr error
				if i > 0 {
					w.free(func() {
						kp := w.newProcOn("key", name)
						kerr = kp.run(func(ctx context.Context, g global.Options, term ui.Terminal) error {
							repo, err := openRepo(ctx, g, term)
							if err == nil {
								key = repo.Key()
							}
							return err
						})
					})
				}
				if kerr != nil {
					r.Abort = "open " + name + ": " + kerr.Error()
					return
				}
				view := model.View(key, w.stores[name].Clone(), true)
				if len(view.Snapshots) != 1 {
					r.Fail("backup", "snapshot-count", "repository %s has %d snapshots, want 1", name, len(view.Snapshots))
					return
				}
				res := result{blobs: map[string]bool{}}
				for _, sn := range view.Snapshots {
					res.tree = sn.Tree
				}
				for _, pc := range view.Packs {
					for k, pt := range pc.Plain {
						if k[:4] != "tree" {
							continue
						}
						res.blobs[k] = true
						// entries strictly sorted by (unquoted) name
						var tr struct {
							Nodes []struct {
								Name string `json:"name"`
							} `json:"nodes"`
						}
						if err := json.Unmarshal(pt, &tr); err != nil {
							r.Fail("sorted", "tree-not-json", "tree blob %s in %s is not valid JSON: %v", k[5:13], name, err)
							return
						}
						prev := ""
						for j, n := range tr.Nodes {
							raw, err := strconv.Unquote(`"` + n.Name + `"`)
							if err != nil {
								r.Fail("sorted", "name-not-unquotable", "tree blob %s in %s: entry name %q cannot be unquoted: %v", k[5:13], name, n.Name, err)
								return
							}
							if j > 0 && !(prev < raw) {
								r.Fail("sorted", "entries-not-sorted", "tree blob %s in %s: entry %q does not sort strictly after %q", k[5:13], name, raw, prev)
								return
							}
							prev = raw
						}
					}
				}
				results = append(results, res)
			}
			for i := 1; i < len(results); i++ {
				if results[i].tree != results[0].tree {
					r.Fail("deterministic", "root-tree-differs", "the same source tree was stored as root tree %s in %s but as %s in %s", results[0].tree[:8], repos[0], results[i].tree[:8], repos[i])
					return
				}
				if len(results[i].blobs) != len(results[0].blobs) {
					r.Fail("deterministic", "tree-blobs-differ", "repository %s holds %d tree blobs, %s holds %d for the same source", repos[i], len(results[i].blobs), repos[0], len(results[0].blobs))
					return
				}
				for k := range results[0].blobs {
					if !results[i].blobs[k] {
						r.Fail("deterministic", "tree-blobs-differ", "tree blob %s exists in %s but not in %s", k[5:13], repos[0], repos[i])
						return
					}
				}
			}
			// lossless decoding through the real read path (names, link targets, types, modes, times)
			for id := range model.View(w.key, w.store.Clone(), false).Snapshots {
				w.snaps[id] = &snapModel{ID: id, Root: tree}
			}
			w.verifyAll("lossless", "decoding the stored trees")
			r.Nontriv = true
		})
	})
}
