package main

import (
	"context"
	"errors"
	"fmt"
	"os"
	"testing"
	"time"

	"github.com/restic/restic/internal/global"
	"github.com/restic/restic/internal/restic"
	"github.com/restic/restic/internal/ui"
	"github.com/restic/restic/internal/verif/hx"
	"github.com/restic/restic/internal/verif/simfs"
	"github.com/restic/restic/internal/verif/simrt"
)

// TestVerifC55: backups that skip source items are reported as incomplete.
// The real runBackup over the simulated source file system in which generated
// entries cannot be opened, fail while being read, are directories that cannot
// be listed, cannot be lstat'ed, change their type between the first look and
// the open, or vanish between the directory listing and the open; read
// concurrency and the schedule of the archiver's workers vary.
func TestVerifC55(t *testing.T) {
	hx.Main(t, "C55", func(r *hx.Rec) {
		tp := r.Tape
		cfg := genCfg(tp)
		cfg.FSPark = true
		w := newWorld(r, cfg)
		readConc := uint(tp.Range(1, 6))
		r.Set("cfg", cfg.String())
		simrt.Run(r.T, w.s, 15*time.Minute, func() {
			w.begin()
			defer w.end()
			if !w.setup() {
				return
			}
			tree := w.genTree(14)
			// the expected snapshot content: the tree without the items that could not be read
			expect := tree.Clone()
			var dirs, files []*simfs.Node
			collect(tree, &dirs, &files)
			unreadable := 0
			vanished := 0
			partialDirs := 0 // directories whose listing fails part-way: whether the listed part is kept is not prescribed
			var desc []string
			// find the twin of a node in the expectation clone by path
			var damage func(orig, exp *simfs.Node)
			damage = func(orig, exp *simfs.Node) {
				for _, k := range append([]*simfs.Node(nil), orig.Kids...) {
					ek := exp.Kid(k.Name)
					switch c := tp.Choose(14); {
					case c == 0 && k.IsRegular():
						k.FailOpen = true
						exp.Remove(k.Name)
						unreadable++
						desc = append(desc, k.Name+":open-fails")
					case c == 1 && k.IsRegular() && len(k.Data) > 10:
						k.FailReadAt = 1 + tp.Choose(len(k.Data)-1)
						exp.Remove(k.Name)
						unreadable++
						desc = append(desc, k.Name+":read-fails")
					case c == 2 && k.IsDir():
						k.FailReaddir = true
						exp.Remove(k.Name)
						unreadable++
						desc = append(desc, k.Name+":readdir-fails")
						continue
					case c == 6 && k.IsRegular():
						w.inode++
						k.Morph = &simfs.Node{Name: k.Name, Mode: os.ModeSymlink | 0o777, Target: "elsewhere", MTime: k.MTime, Inode: 100 + w.inode, Links: 1}
						exp.Remove(k.Name)
						unreadable++
						desc = append(desc, k.Name+":becomes-a-symlink-before-it-is-opened")
					case c == 5 && k.IsDir() && len(k.Kids) > 0:
						k.ReaddirCut = 1 + tp.Choose(len(k.Kids)+1)
						exp.Remove(k.Name)
						unreadable++
						partialDirs++
						desc = append(desc, fmt.Sprintf("%s:readdir-fails-after-%d-of-%d-names", k.Name, k.ReaddirCut-1, len(k.Kids)))
						continue
					case c == 3:
						k.Vanish = true
						exp.Remove(k.Name)
						vanished++
						desc = append(desc, k.Name+":vanishes")
						continue
					case c == 4 && k.IsRegular():
						w.inode++
						k.Morph = &simfs.Node{Name: k.Name, Mode: os.ModeDir | 0o755, MTime: k.MTime, Inode: 100 + w.inode, Links: 1}
						exp.Remove(k.Name)
						unreadable++
						desc = append(desc, k.Name+":becomes-a-directory")
					}
					if k.IsDir() && ek != nil && exp.Kid(k.Name) != nil {
						damage(k, ek)
					}
				}
			}
			damage(tree, expect)
			r.Set("source_faults", fmt.Sprint(desc))
			r.CaseKey = cfg.String() + fmt.Sprint(readConc, desc)
			pr := w.newProc("backup")
			res := w.cmdBackup(pr, tree, BackupOptions{ReadConcurrency: readConc})
			w.postRun()
			where := fmt.Sprintf("source faults %v", desc)
			incomplete := errors.Is(res.Err, ErrInvalidSourceData)
			if res.Err != nil && !incomplete {
				r.Fail("status", "backup-failed", "%s: backup failed with an error other than the incomplete-snapshot status: %v\n%s", where, res.Err, firstLines(pr.term.Err(), 6))
				return
			}
			if unreadable > 0 && !incomplete {
				r.Fail("status", "incomplete-not-reported", "%s: %d source items could not be read but the backup reported success", where, unreadable)
			}
			if unreadable == 0 && incomplete {
				r.Fail("status", "false-incomplete", "%s: every source item was read (%d items only vanished) but the backup reported the incomplete-snapshot status\n%s", where, vanished, firstLines(pr.term.Err(), 6))
			}
			if res.NewID == "" {
				r.Fail("snapshot", "no-snapshot", "%s: no snapshot was saved", where)
				return
			}
			r.Count("unreadable_items", unreadable)
			r.Count("vanished_items", vanished)
			// the snapshot holds exactly the readable items
			w.free(func() {
				vp := w.newProc("verify")
				_ = vp.run(func(ctx context.Context, g global.Options, term ui.Terminal) error {
					repo, err := openRepo(ctx, g, term)
					if err != nil {
						r.Fail("snapshot", "open-failed", "%s: repository cannot be opened: %v", where, err)
						return nil
					}
					if err := repo.LoadIndex(ctx, restic.NoopTerminalCounterFactory); err != nil {
						r.Fail("snapshot", "index-failed", "%s: %v", where, err)
						return nil
					}
					if partialDirs > 0 {
						return nil
					}
					if d := verifySnapshot(ctx, repo, res.NewID, expect); d != "" {
						r.Fail("snapshot", "readable-items-differ", "%s: the snapshot does not hold exactly the readable items: %s", where, d)
					}
					return nil
				})
			})
		})
	})
}
