package main

import (
	"fmt"
	"sort"
	"testing"
	"time"

	"github.com/restic/restic/internal/backend"
	"github.com/restic/restic/internal/verif/hx"
	"github.com/restic/restic/internal/verif/model"
	"github.com/restic/restic/internal/verif/simbe"
	"github.com/restic/restic/internal/verif/simrt"
)

// TestVerifC33: repair index rebuilds an index that describes the stored packs
// exactly. Histories with complete and crashed backups and an optionally
// crashed earlier repair (duplicate index files), then at-rest damage: index
// files deleted or bit-flipped, packs deleted, truncated or with a damaged
// header; then `repair index` with and without --read-all-packs, optionally
// with transient read errors. The independent decoder lists every pack whose
// header is readable; the durable index afterwards must name exactly those
// blobs at their true positions and nothing else. No pack file may be removed.
func TestVerifC33(t *testing.T) {
	hx.Main(t, "C33", func(r *hx.Rec) {
		tp := r.Tape
		cfg := genCfg(tp)
		w := newWorld(r, cfg)
		nBackups := tp.Range(1, 4)
		readAll := tp.Choose(2) == 0
		transient := tp.Choose(4) == 0
		r.Set("cfg", cfg.String())
		r.Set("read_all_packs", readAll)
		simrt.Run(r.T, w.s, 15*time.Minute, func() {
			w.begin()
			defer w.end()
			if !w.setup() {
				return
			}
			tree := w.genTree(10)
			var hist []string
			okb := true
			w.free(func() {
				for i := 0; i < nBackups && okb; i++ {
					if tp.Choose(3) == 0 {
						f := fault{Kind: "crash", At: 1 + tp.Choose(12)}
						w.backupFaulty(tree, f)
						_ = w.cmdUnlock(w.newProc("unlock"))
						hist = append(hist, "backup("+f.String()+")")
					} else {
						okb = w.backupOK(tree, BackupOptions{}, fmt.Sprintf("backup %d", i))
						hist = append(hist, "backup")
					}
					tree = w.mutateTree(tree)
				}
				if tp.Choose(4) == 0 {
					// an interrupted earlier repair leaves overlapping index files behind
					pr := w.newProc("repair0")
					pr.cl.CrashAt = 1 + tp.Choose(6)
					_ = w.cmdRepairIndex(pr, true)
					_ = w.cmdUnlock(w.newProc("unlock"))
					hist = append(hist, "repair-index(crashed)")
				}
			})
			if !okb {
				return
			}
			// at-rest damage
			var desc []string
			for _, name := range w.store.Names(backend.IndexFile) {
				h := backend.Handle{Type: backend.IndexFile, Name: name}
				switch tp.Choose(5) {
				case 0:
					w.store.Del(h)
					desc = append(desc, "delete index "+name[:8])
					w.s.Count("fault:index-deleted")
				case 1:
					d := append([]byte(nil), w.store.Get(h)...)
					d[tp.Choose(len(d))] ^= 0x04
					w.store.Put(h, d)
					desc = append(desc, "corrupt index "+name[:8])
					w.s.Count("fault:index-corrupted")
				case 2:
					d := w.store.Get(h)
					w.store.Put(h, append([]byte(nil), d[:tp.Choose(len(d))]...))
					desc = append(desc, "truncate index "+name[:8])
					w.s.Count("fault:index-truncated")
				}
			}
			for _, name := range w.store.Names(backend.PackFile) {
				h := backend.Handle{Type: backend.PackFile, Name: name}
				switch tp.Choose(8) {
				case 0:
					w.store.Del(h)
					desc = append(desc, "delete pack "+name[:8])
					w.s.Count("fault:pack-deleted")
				case 1:
					d := w.store.Get(h)
					if len(d) > 2 {
						w.store.Put(h, append([]byte(nil), d[:1+tp.Choose(len(d)-1)]...))
						desc = append(desc, "truncate pack "+name[:8])
						w.s.Count("fault:pack-truncated")
					}
				case 2:
					// a header damaged in place keeps the file size: without --read-all-packs restic (as documented)
					// does not re-read packs that are indexed with the right size, so this damage is only applied
					// when everything is read
					d := append([]byte(nil), w.store.Get(h)...)
					if len(d) > 40 && readAll {
						// inside the header or its length field
						d[len(d)-1-tp.Choose(36)] ^= 0x20
						w.store.Put(h, d)
						desc = append(desc, "damage header of pack "+name[:8])
						w.s.Count("fault:pack-header-damaged")
					}
				}
			}
			r.Set("history", fmt.Sprint(hist))
			r.Set("damage", fmt.Sprint(desc))
			r.CaseKey = cfg.String() + fmt.Sprint(hist, desc, readAll)
			where := fmt.Sprintf("history %v, damage %v, read-all-packs=%v", hist, desc, readAll)
			packsBefore := w.store.Names(backend.PackFile)
			// the repair under test (scheduled)
			pr := w.newProc("repair-index")
			if transient {
				pr.cl.F = simbe.Faults{ErrBefore: 60, PartialRead: 60, ListFail: 40, Budget: 3}
			}
			stickyIdx := tp.Choose(4) == 0
			if stickyIdx {
				// one index file cannot be downloaded (or cannot be removed) at all (a backend error, not corruption); a pack file that cannot
				// be downloaded is simply not readable in that run and restic skips it like a damaged one
				f := fault{Kind: "sticky", Op: []string{"Load", "Remove"}[tp.Choose(2)], Type: backend.IndexFile, At: 1 + tp.Choose(2)}
				w.arm(pr, f)
				where += ", " + f.String()
			}
			removedPack := ""
			w.store.OnMutation = append(w.store.OnMutation, func(m simbe.Mutation, _ []byte) {
				if m.Op == "remove" && m.H.Type == backend.PackFile {
					removedPack = m.H.Name
				}
			})
			err := w.cmdRepairIndex(pr, readAll)
			w.disarm()
			w.postRun()
			if removedPack != "" {
				r.Fail("no-pack-removed", "pack-removed", "%s: repair index removed pack file %s", where, removedPack[:8])
			}
			if fmt.Sprint(w.store.Names(backend.PackFile)) != fmt.Sprint(packsBefore) {
				r.Fail("no-pack-removed", "packs-changed", "%s: the set of pack files changed during repair index", where)
			}
			if err != nil {
				if w.faultsFired() == 0 || !(transient || stickyIdx) {
					r.Fail("repair-result", "repair-failed", "%s: repair index failed: %v\n%s", where, err, firstLines(pr.term.Err(), 6))
				}
				return
			}
			// ground truth: every pack with a readable header
			view := model.View(w.key, w.store.Clone(), false)
			type ent struct {
				key, pack string
				off, ln  uint
			}
			want := map[ent]bool{}
			for id := range view.PackSizes {
				data := w.store.Get(backend.Handle{Type: backend.PackFile, Name: id})
				pc, derr := model.DecodePack(w.key, id, data, false)
				if derr != nil {
					continue // unreadable header: nothing may be indexed for it
				}
				for _, b := range pc.Blobs {
					want[ent{b.Key(), id, b.Offset, b.Length}] = true
				}
			}
			got := map[ent]bool{}
			for k, es := range view.Indexed {
				for _, e := range es {
					got[ent{k, e.Pack, e.Offset, e.Length}] = true
				}
			}
			for id, e := range view.IndexErr {
				r.Fail("index-exact", "undecodable-index-left", "%s: after repair index the index file %s is still undecodable: %s", where, id[:8], e)
			}
			var missing, extra []string
			for e := range want {
				if !got[e] {
					missing = append(missing, fmt.Sprintf("%s in %s at %d+%d", e.key[:13], e.pack[:8], e.off, e.ln))
				}
			}
			for e := range got {
				if !want[e] {
					extra = append(extra, fmt.Sprintf("%s in %s at %d+%d", e.key[:13], e.pack[:8], e.off, e.ln))
				}
			}
			sort.Strings(missing)
			sort.Strings(extra)
			if len(missing) > 0 {
				r.Fail("index-exact", "blob-not-indexed", "%s: after repair index %d blobs of readable packs are not indexed at their true position (first: %s)", where, len(missing), missing[0])
			}
			if len(extra) > 0 {
				r.Fail("index-exact", "index-names-nothing", "%s: after repair index the index has %d entries that match no readable pack (first: %s)", where, len(extra), extra[0])
			}
			r.Count("packs_indexed", len(view.PackSizes))
		})
	})
}
