package main

import (
	"context"
	"fmt"
	"sort"
	"testing"
	"time"

	"github.com/restic/restic/internal/backend"
	"github.com/restic/restic/internal/global"
	"github.com/restic/restic/internal/repository"
	"github.com/restic/restic/internal/repository/crypto"
	"github.com/restic/restic/internal/restic"
	"github.com/restic/restic/internal/ui"
	"github.com/restic/restic/internal/verif/hx"
	"github.com/restic/restic/internal/verif/model"
	"github.com/restic/restic/internal/verif/simbe"
	"github.com/restic/restic/internal/verif/simfs"
	"github.com/restic/restic/internal/verif/simrt"
)

func (w *world) cmdCopy(pr *proc, ids []string) error {
	return pr.run(func(ctx context.Context, g global.Options, term ui.Terminal) error {
		o := CopyOptions{}
		o.SecondaryRepoOptions.Repo = "sim:main"
		o.SecondaryRepoOptions.Password = w.pw
		return runCopy(ctx, o, g, ids, term)
	})
}

// TestVerifC32: copy transfers snapshots faithfully and idempotently. A source
// repository with overlapping snapshots, a destination with its own chunker
// polynomial and format version (optionally holding an earlier partial copy);
// the copy is crashed after its k-th mutation of the destination (sampled, or
// every k), delayed (so that batches split by time) or given transient errors.
func TestVerifC32(t *testing.T) {
	hx.Main(t, "C32", func(r *hx.Rec) {
		tp := r.Tape
		cfg := genCfg(tp)
		big := tp.Choose(4) == 0
		if big {
			cfg.PackSize = 16 << 10
		}
		w := newWorld(r, cfg)
		dstVersion := uint(tp.Range(1, 2))
		nSnaps := tp.Range(1, 4)
		sweep := tp.Choose(5) == 0
		if sweep && hx.Tier() == "quick" && tp.Choose(3) != 0 {
			sweep = false
		}
		r.Set("cfg", cfg.String())
		r.Set("dst_version", dstVersion)
		r.Set("sweep", sweep)
		simrt.Run(r.T, w.s, 15*time.Minute, func() {
			w.begin()
			defer w.end()
			if !w.setup() {
				return
			}
			// destination repository
			dst := simbe.NewStore(w.s)
			w.stores["dst"] = dst
			var dstKey *crypto.Key
			var err error
			w.free(func() {
				pr := w.newProcOn("init-dst", "dst")
				err = pr.run(func(ctx context.Context, g global.Options, term ui.Terminal) error {
					return runInit(ctx, InitOptions{RepositoryVersion: fmt.Sprint(dstVersion)}, g, nil, term)
				})
				if err == nil {
					pr2 := w.newProcOn("key-dst", "dst")
					err = pr2.run(func(ctx context.Context, g global.Options, term ui.Terminal) error {
						repo, err := openRepo(ctx, g, term)
						if err == nil {
							dstKey = repo.Key()
						}
						return err
					})
				}
			})
			if err != nil {
				r.Abort = "dst setup: " + err.Error()
				return
			}
			// source snapshots
			bigTree := func() *simfs.Node {
				// more than 100 packs worth of fresh data per snapshot, so that copy's batches can split
				root := w.newDir("src")
				for i := 0; i < 18; i++ {
					root.Add(w.newFile(fmt.Sprintf("big%d", i), 100<<10, 0))
				}
				return root
			}
			tree := w.genTree(12)
			if big {
				tree = bigTree()
				if nSnaps < 2 {
					nSnaps = 2
				}
			}
			for i := 0; i < nSnaps; i++ {
				if !w.backupOK(tree, BackupOptions{}, fmt.Sprintf("source backup %d", i)) {
					return
				}
				if big {
					tree = bigTree()
				} else if tp.Choose(3) == 0 {
					tree = w.genTree(12)
				} else {
					tree = w.mutateTree(tree)
				}
			}
			srcIDs := w.sortedSnaps()
			// an earlier complete copy of a subset
			if tp.Choose(3) == 0 && len(srcIDs) > 1 {
				sub := srcIDs[:1+tp.Choose(len(srcIDs)-1)]
				if err := w.cmdCopy(w.newProcOn("copy0", "dst"), sub); err != nil {
					r.Fail("fault-free-copy", "copy-failed", "fault-free partial copy failed: %v", err)
					return
				}
			}
			w.postRun()
			if r.Failed() {
				return
			}
			d0 := dst.Clone()

			// every snapshot file in the destination must be complete (decoder) and restore to the model of its original
			judgeDst := func(where string, wantAll bool) {
				view := model.View(dstKey, dst.Clone(), true)
				var ids []string
				for id := range view.Snapshots {
					ids = append(ids, id)
				}
				sort.Strings(ids)
				copied := map[string]string{} // original -> dst id
				for _, id := range ids {
					sn := view.Snapshots[id]
					if _, missing := view.Reachable(sn.Tree); len(missing) > 0 {
						r.Fail("dst-complete", "incomplete-dst-snapshot", "%s: destination snapshot %s lacks %d blobs (first %s)", where, id[:8], len(missing), missing[0])
						return
					}
					orig := sn.Original
					if orig == "" {
						orig = id
					}
					copied[orig] = id
				}
				for id, e := range view.SnapErr {
					r.Fail("dst-complete", "undecodable-dst-snapshot", "%s: destination snapshot %s: %s", where, id[:8], e)
				}
				if r.Failed() {
					return
				}
				// tree ids equal, content equal through the real read path
				srcDec := w.decodedSnapshots()
				w.free(func() {
					pr := w.newProcOn("verify-dst", "dst")
					_ = pr.run(func(ctx context.Context, g global.Options, term ui.Terminal) error {
						repo, err := openRepo(ctx, g, term)
						if err != nil {
							r.Fail("dst-opens", "dst-open-failed", "%s: destination cannot be opened: %v", where, err)
							return nil
						}
						if err := repo.LoadIndex(ctx, restic.NoopTerminalCounterFactory); err != nil {
							r.Fail("dst-opens", "dst-index-failed", "%s: destination index cannot be loaded: %v", where, err)
							return nil
						}
						for _, sid := range srcIDs {
							did, ok := copied[sid]
							if !ok {
								if wantAll {
									r.Fail("all-copied", "snapshot-not-copied", "%s: source snapshot %s has no copy in the destination", where, sid[:8])
								}
								continue
							}
							if srcDec[sid] != nil && view.Snapshots[did].Tree != srcDec[sid].Tree {
								r.Fail("same-tree", "tree-differs", "%s: copy %s of %s has tree %s, source has %s", where, did[:8], sid[:8], view.Snapshots[did].Tree[:8], srcDec[sid].Tree[:8])
							}
							if d := verifySnapshot(ctx, repo, did, w.snaps[sid].Root); d != "" {
								r.Fail("same-content", "content-differs", "%s: copy %s of %s does not restore to the source content: %s", where, did[:8], sid[:8], d)
							}
						}
						return nil
					})
				})
			}

			points := 0
			for k := 1; k < 400 && !r.Failed(); k++ {
				if k > 1 {
					dst.Restore(d0)
				}
				var f fault
				if sweep {
					f = fault{Kind: "crash", At: k}
				} else {
					c := tp.Choose(4)
					if big && tp.Choose(2) == 0 {
						c = 2
					}
					if tp.Choose(5) == 0 {
						c = 3
					}
					switch c {
					case 3:
						// one pack of the source repository cannot be downloaded at all
						f = fault{Kind: "sticky-src", At: 1 + tp.Choose(4)}
					case 0:
						f = fault{Kind: "crash", At: 1 + tp.Choose(25)}
					case 1:
						f = fault{Kind: "transient", Budget: 1 + tp.Choose(4)}
					case 2:
						f = fault{Kind: "slow"}
					}
				}
				pr := w.newProcOn("copy", "dst")
				switch f.Kind {
				case "crash":
					pr.cl.CrashAt = f.At
				case "transient":
					pr.cl.F = simbe.Faults{ErrBefore: 50, ErrAfter: 50, PartialRead: 30, Budget: f.Budget}
				case "slow":
					pr.cl.F = simbe.Faults{Delay: 150, MaxDelay: 90 * time.Second, Budget: 8}
				case "sticky-src":
					seen := map[string]int{}
					at := f.At
					w.extraClientHook = func(c *simbe.Client) {
						c.Script = func(op string, h backend.Handle, _ int) *simbe.Forced {
							if op != "Load" || h.Type != backend.PackFile {
								return nil
							}
							idx, ok := seen[h.Name]
							if !ok {
								idx = len(seen) + 1
								seen[h.Name] = idx
							}
							if idx != at {
								return nil
							}
							w.s.Count("fault:sticky-load-source-pack")
							return &simbe.Forced{Kind: "err-before"}
						}
					}
				}
				// watch the destination: a snapshot saved before a later pack means the batch was split
				snapSaved, split := false, false
				dst.OnMutation = append(dst.OnMutation, func(m simbe.Mutation, _ []byte) {
					if m.Op != "save" {
						return
					}
					if m.H.Type == backend.SnapshotFile {
						snapSaved = true
					}
					if m.H.Type == backend.PackFile && snapSaved {
						split = true
					}
				})
				err := w.cmdCopy(pr, nil)
				w.extraClientHook = nil
				dst.OnMutation = nil
				w.postRun()
				points++
				if split {
					w.s.Count("probe:copy-batch-split")
				}
				where := "copy with " + f.String() + f.Kind
				completed := !pr.cl.Dead && err == nil
				if err != nil && w.faultsFired() == 0 {
					r.Fail("copy-result", "failed-without-fault", "%s: failed without any injected fault: %v", where, err)
				}
				// unlock both repositories after a crash
				if pr.cl.Dead {
					w.recoverLocks(where)
					w.free(func() { _ = w.cmdUnlock(w.newProcOn("unlock-dst", "dst")) })
				}
				judgeDst(where, completed)
				if !completed && pr.cl.Dead && !r.Failed() && tp.Choose(2) == 0 {
					// what a user does after an interrupted copy: (optionally) repair index, then copy again
					where2 := where + ", then"
					if tp.Choose(2) == 0 {
						var rerr error
						w.free(func() {
							rp := w.newProcOn("repair-index-dst", "dst")
							rerr = rp.run(func(ctx context.Context, g global.Options, term ui.Terminal) error {
								return runRebuildIndex(ctx, RepairIndexOptions{}, g, term)
							})
						})
						if rerr != nil {
							r.Fail("recovery", "repair-index-failed", "%s: repair index on the destination failed: %v", where, rerr)
						}
						where2 += " repair index and"
					}
					var cerr error
					w.free(func() { cerr = w.cmdCopy(w.newProcOn("copy-retry", "dst"), nil) })
					if cerr != nil {
						r.Fail("recovery", "copy-retry-failed", "%s a fault-free copy failed: %v", where2, cerr)
					}
					judgeDst(where2+" a second copy", true)
					w.free(func() { _ = w.cmdUnlock(w.newProcOn("unlock-dst", "dst")) })
					w.checkCleanOn("dst", "dst-check", where2+" a second copy")
					r.Count("copy_retried_after_crash", 1)
				}
				if completed && !r.Failed() {
					// idempotence: a second copy writes no pack and no snapshot
					extra := 0
					dst.OnMutation = append(dst.OnMutation, func(m simbe.Mutation, _ []byte) {
						if m.Op == "save" && (m.H.Type == backend.PackFile || m.H.Type == backend.SnapshotFile) {
							extra++
						}
					})
					var err2 error
					w.free(func() { err2 = w.cmdCopy(w.newProcOn("copy-again", "dst"), nil) })
					dst.OnMutation = nil
					if err2 != nil {
						r.Fail("idempotent", "second-copy-failed", "%s: a second copy failed: %v", where, err2)
					}
					if extra > 0 {
						r.Fail("idempotent", "second-copy-wrote", "%s: a second copy saved %d pack/snapshot files", where, extra)
					}
					// a stalled unlock (> 1 min) gives up and leaves the lock file behind by design: clean up like a user would
					w.free(func() { _ = w.cmdUnlock(w.newProcOn("unlock-dst", "dst")) })
					w.checkCleanOn("dst", "dst-check", where)
				}
				if !sweep || !pr.cl.Dead {
					break
				}
			}
			r.Count("copy_runs", points)
			_ = repository.MinPackSize
			_ = simfs.New
		})
	})
}
