package main

import (
	"strings"
	"context"
	"fmt"
	"testing"
	"time"

	"github.com/restic/restic/internal/backend"
	"github.com/restic/restic/internal/global"
	"github.com/restic/restic/internal/ui"
	"github.com/restic/restic/internal/verif/hx"
	"github.com/restic/restic/internal/verif/simbe"
	"github.com/restic/restic/internal/verif/simrt"
)

func (w *world) cmdMigrate(pr *proc, name string) error {
	return pr.run(func(ctx context.Context, g global.Options, term ui.Terminal) error {
		return runMigrate(ctx, MigrateOptions{}, g, []string{name}, term)
	})
}

// TestVerifC31: upgrading a format-1 repository to format 2. The migration is
// repeated with a crash after every applied mutation and with a failure
// (transient once / several times / for good; before or after the effect) of
// every Save/Remove it issues on the config file, on backends with and without
// atomic replace. Oracle: the repository opens with the old or the new
// config, all snapshots restore equal, check is clean.
func TestVerifC31(t *testing.T) {
	hx.Main(t, "C31", func(r *hx.Rec) {
		tp := r.Tape
		cfg := genCfg(tp)
		cfg.Version = 1
		w := newWorld(r, cfg)
		r.Set("cfg", cfg.String())
		simrt.Run(r.T, w.s, 15*time.Minute, func() {
			w.begin()
			defer w.end()
			if !w.setup() {
				return
			}
			tree := w.genTree(8)
			if !w.backupOK(tree, BackupOptions{}, "backup") {
				return
			}
			if tp.Choose(2) == 0 && !w.backupOK(w.mutateTree(tree), BackupOptions{}, "backup 2") {
				return
			}
			w.postRun()
			if r.Failed() {
				return
			}
			s0 := w.store.Clone()
			points := 0
			// bookkeeping of the failure sweeps: config Save attempts that were not made to fail, and
			// the number of logical config Saves (an attempt plus its retries) the command got to
			cleanCfgSaves, cfgSaveOps := 0, 0
			// whether a missing config is the recorded finding "the last resort, a Save of the config, failed for good"
			knownCond := func() bool { return cleanCfgSaves == 0 && cfgSaveOps >= 2 }
			judge := func(where string, pr *proc, lastCfgOp string) {
				points++
				w.postRun()
				cfgThere := w.store.Get(backend.Handle{Type: backend.ConfigFile}) != nil
				if !cfgThere {
					sig := "config-missing"
					if !cfg.Atomic && lastCfgOp == "remove" && pr.cl.Dead {
						sig = "config-missing-nonatomic-crash-between-remove-and-save"
					} else if !cfg.Atomic && !pr.cl.Dead && knownCond() {
						// the new config could not be written and neither could the old one be put back
						sig = "config-missing-nonatomic-save-failed-for-good"
					}
					r.Fail("opens", sig, "%s: the repository has no config file any more (atomic replace: %v)", where, cfg.Atomic)
					return
				}
				w.recoverLocks(where)
				w.verifyAll("snapshots", where)
				w.checkClean("check", where)
				// a second migration attempt or a backup must work afterwards
				var res backupResult
				w.free(func() { res = w.cmdBackup(w.newProc("after"), tree, BackupOptions{}) })
				if res.Err != nil {
					r.Fail("liveness", "backup-after-failed", "%s: a backup afterwards failed: %v", where, res.Err)
				}
			}
			// 1. crash sweep
			for k := 1; k < 60 && !r.Failed(); k++ {
				w.store.Restore(s0)
				pr := w.newProc("migrate")
				pr.cl.CrashAt = k
				last := ""
				w.store.OnMutation = append(w.store.OnMutation, func(m simbe.Mutation, _ []byte) {
					if m.H.Type == backend.ConfigFile {
						last = m.Op
					}
				})
				err := w.cmdMigrate(pr, "upgrade_repo_v2")
				w.disarm()
				where := fmt.Sprintf("upgrade_repo_v2 crashed after mutation %d", k)
				if !pr.cl.Dead {
					where = "upgrade_repo_v2 completed"
					if err != nil {
						r.Fail("op-result", "failed-without-fault", "%s: failed without a fault: %v", where, err)
					}
				}
				judge(where, pr, last)
				if !pr.cl.Dead {
					break
				}
			}
			// 2. failure sweep over the config operations
			for n := 1; n <= 3 && !r.Failed(); n++ {
				for _, kind := range []string{"err-before", "err-after"} {
					for _, times := range []int{1, 3, 1000} {
						if hx.Tier() == "quick" && tp.Choose(3) != 0 {
							continue
						}
						w.store.Restore(s0)
						pr := w.newProc("migrate")
						cnt, fired := 0, 0
						last := ""
						cleanCfgSaves, cfgSaveOps = 0, 0
						prevOp := ""
						pr.cl.Script = func(op string, h backend.Handle, _ int) *simbe.Forced {
							if h.Type != backend.ConfigFile || (op != "Save" && op != "Remove") {
								return nil
							}
							if op == "Save" && prevOp != "Save" {
								cfgSaveOps++
							}
							prevOp = op
							cnt++
							if cnt >= n && fired < times {
								fired++
								w.s.Count("fault:config-" + kind)
								return &simbe.Forced{Kind: kind}
							}
							if op == "Save" {
								cleanCfgSaves++
							}
							return nil
						}
						w.store.OnMutation = append(w.store.OnMutation, func(m simbe.Mutation, _ []byte) {
							if m.H.Type == backend.ConfigFile {
								last = m.Op
							}
						})
						_ = w.cmdMigrate(pr, "upgrade_repo_v2")
						w.disarm()
						if fired == 0 {
							continue
						}
						judge(fmt.Sprintf("upgrade_repo_v2 with %s on config operation %d.. (%d times)", kind, n, times), pr, last)
					}
				}
			}
			// 3. every subset of the logical config operations (an attempt with all its retries) fails for good
			for mask := 1; mask < 16 && !r.Failed(); mask++ {
				if hx.Tier() == "quick" && tp.Choose(2) != 0 {
					continue
				}
				w.store.Restore(s0)
				pr := w.newProc("migrate")
				last := ""
				cleanCfgSaves, cfgSaveOps = 0, 0
				// logical operations: a Save with its retries (and, without atomic replace, the retry layer's
				// clean-up Remove after each failed attempt) or a Remove with its retries
				curKind, prevAttempt, logical, fired := "", "", 0, 0
				firstRemoveFailed := false
				// known: no config Save took effect, the command's last config operation was a Save
				// (its last resort), and it got to the re-upload (two Saves, or one if the initial Remove failed)
				appliedCfgSaves := 0
				knownCond = func() bool {
					return appliedCfgSaves == 0 && curKind == "Save" && (cfgSaveOps >= 2 || firstRemoveFailed && cfgSaveOps >= 1)
				}
				pr.cl.Script = func(op string, h backend.Handle, _ int) *simbe.Forced {
					if h.Type != backend.ConfigFile || (op != "Save" && op != "Remove") {
						return nil
					}
					if op == "Remove" && !cfg.Atomic && prevAttempt == "save-failed" {
						prevAttempt = "cleanup"
						return nil
					}
					if op != curKind || prevAttempt == "cleanup" && op == "Remove" {
						logical++
						curKind = op
						if op == "Save" {
							cfgSaveOps++
						}
					}
					if logical <= 4 && mask&(1<<(logical-1)) != 0 {
						fired++
						w.s.Count("fault:config-op-fails-for-good")
						prevAttempt = strings.ToLower(op) + "-failed"
						if logical == 1 && op == "Remove" {
							firstRemoveFailed = true
						}
						return &simbe.Forced{Kind: "err-before"}
					}
					prevAttempt = strings.ToLower(op) + "-ok"
					if op == "Save" {
						cleanCfgSaves++
					}
					return nil
				}
				w.store.OnMutation = append(w.store.OnMutation, func(m simbe.Mutation, _ []byte) {
					if m.H.Type == backend.ConfigFile {
						last = m.Op
						if m.Op == "save" {
							appliedCfgSaves++
						}
					}
				})
				_ = w.cmdMigrate(pr, "upgrade_repo_v2")
				w.disarm()
				if fired == 0 {
					continue
				}
				judge(fmt.Sprintf("upgrade_repo_v2 with the config operations of mask %04b failing for good", mask), pr, last)
			}
			r.Count("points", points)
			r.Nontriv = true
		})
	})
}
