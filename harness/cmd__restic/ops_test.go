package main

// Generic history operations of the lifecycle harness and the bookkeeping that
// keeps the snapshot model in step with the store.

import (
	"context"
	"fmt"
	"sort"
	"strings"
	"time"

	"github.com/restic/restic/internal/backend"
	"github.com/restic/restic/internal/data"
	"github.com/restic/restic/internal/global"
	"github.com/restic/restic/internal/ui"
	"github.com/restic/restic/internal/verif/model"
	"github.com/restic/restic/internal/verif/simbe"
	"github.com/restic/restic/internal/verif/simfs"
)

// fault describes what is done to one operation.
type fault struct {
	Kind   string // "", "crash", "cancel", "transient", "errbefore", "errafter", "sticky"
	At     int    // mutation index for crash/cancel; mutation attempt for errbefore/errafter; n-th distinct file for sticky
	Budget int
	Op     string           // sticky: "Save" or "Remove"
	Type   backend.FileType // sticky: file type
}

func (f fault) String() string {
	switch f.Kind {
	case "":
		return "no fault"
	case "transient":
		return fmt.Sprintf("transient backend errors (budget %d)", f.Budget)
	case "errbefore":
		return fmt.Sprintf("mutation attempt %d fails without effect", f.At)
	case "errafter":
		return fmt.Sprintf("mutation attempt %d takes effect but reports an error", f.At)
	case "sticky":
		return fmt.Sprintf("every %s of the %d. %s file fails", f.Op, f.At, f.Type)
	}
	return fmt.Sprintf("%s at mutation %d", f.Kind, f.At)
}

// arm applies the fault to the process that is about to run an operation.
func (w *world) arm(pr *proc, f fault) {
	switch f.Kind {
	case "crash":
		pr.cl.CrashAt = f.At
	case "cancel":
		n := 0
		w.store.OnMutation = append(w.store.OnMutation, func(m simbe.Mutation, _ []byte) {
			if m.Client == pr.cl {
				n++
				if n == f.At {
					w.s.Count("fault:cancel")
					pr.cancel()
				}
			}
		})
	case "errbefore", "errafter":
		// one Save/Remove attempt of this process fails once, with or without having taken effect
		n := 0
		kind := map[string]string{"errbefore": "err-before", "errafter": "err-after"}[f.Kind]
		pr.cl.Script = func(op string, h backend.Handle, _ int) *simbe.Forced {
			if op != "Save" && op != "Remove" {
				return nil
			}
			n++
			if n != f.At {
				return nil
			}
			w.forcedFired++
			w.s.Count("fault:forced-" + strings.ToLower(op) + "-" + kind)
			return &simbe.Forced{Kind: kind}
		}
	case "sticky":
		// every attempt of one operation on one particular file fails for this process
		seen := map[string]int{}
		pr.cl.Script = func(op string, h backend.Handle, _ int) *simbe.Forced {
			if op != f.Op || h.Type != f.Type {
				return nil
			}
			idx, ok := seen[h.Name]
			if !ok {
				idx = len(seen) + 1
				seen[h.Name] = idx
			}
			if idx != f.At {
				return nil
			}
			w.forcedFired++
			w.s.Count("fault:sticky-" + strings.ToLower(op) + "-" + h.Type.String())
			return &simbe.Forced{Kind: "err-before"}
		}
	case "transient":
		pr.cl.F = simbe.Faults{ErrBefore: 50, ErrAfter: 50, PartialRead: 30, ListFail: 30, Budget: f.Budget, Delay: 40, MaxDelay: 10 * time.Minute}
		if !w.cfg.Atomic {
			pr.cl.F.Torn = 30
		}
	}
}

func (w *world) disarm() {
	w.store.OnMutation = append([]func(simbe.Mutation, []byte){}, w.keepMonitors...)
}

func (w *world) genFault(allow string) fault {
	tp := w.tp
	switch tp.Choose(6) {
	case 1, 2:
		return fault{Kind: "crash", At: 1 + tp.Choose(30)}
	case 3:
		if strings.Contains(allow, "cancel") {
			return fault{Kind: "cancel", At: 1 + tp.Choose(30)}
		}
	case 4:
		return fault{Kind: "transient", Budget: 1 + tp.Choose(5)}
	case 5:
		// (was "no fault", which case 0 still is)
		switch tp.Choose(3) {
		case 0:
			return fault{Kind: "sticky", Op: []string{"Remove", "Save"}[tp.Choose(2)], At: 1 + tp.Choose(3),
				Type: []backend.FileType{backend.SnapshotFile, backend.IndexFile, backend.PackFile}[tp.Choose(3)]}
		case 1:
			return fault{Kind: "errafter", At: 1 + tp.Choose(20)}
		default:
			return fault{Kind: "errbefore", At: 1 + tp.Choose(20)}
		}
	}
	return fault{}
}

// syncModel reconciles the snapshot model with the snapshot files in the
// store after an operation that may rewrite snapshots (tag, rewrite, repair):
// a new snapshot whose `original` points at a known snapshot inherits (a
// transformation of) its source model.
func (w *world) syncModel(srcID string, transform func(old *simfs.Node) *simfs.Node) {
	src := w.snaps[srcID]
	if w.key == nil || src == nil {
		return
	}
	origin := src.ID
	if src.Orig != "" {
		origin = src.Orig
	}
	known := map[string]bool{}
	for id, m := range w.snaps {
		known[id] = true
		if m.Tree == "" {
			if raw := w.store.Get(backend.Handle{Type: backend.SnapshotFile, Name: id}); raw != nil {
				if sn, err := model.DecodeSnapshot(w.key, id, raw); err == nil {
					m.Tree = sn.Tree
				}
			}
		}
	}
	for _, id := range w.snapshotIDs() {
		if known[id] {
			continue
		}
		raw := w.store.Get(backend.Handle{Type: backend.SnapshotFile, Name: id})
		sn, err := model.DecodeSnapshot(w.key, id, raw)
		if err != nil || sn.Original == "" {
			continue
		}
		if transform == nil && src.Tree != "" && sn.Tree != src.Tree {
			// an operation that keeps the tree: a snapshot with another tree descends from a sibling
			continue
		}
		if sn.Original == origin || sn.Original == src.ID {
			root := src.Root
			if transform != nil {
				root = transform(root)
			}
			w.snaps[id] = &snapModel{ID: id, Root: root, Orig: sn.Original, Tree: sn.Tree}
		}
	}
}

// dropGone removes model entries whose snapshot file no longer exists, if the
// operation was allowed to remove them.
func (w *world) dropGone(allowed map[string]bool, oracle, where string) {
	present := map[string]bool{}
	for _, id := range w.snapshotIDs() {
		present[id] = true
	}
	var ids []string
	for id := range w.snaps {
		ids = append(ids, id)
	}
	sort.Strings(ids)
	for _, id := range ids {
		if present[id] {
			continue
		}
		if allowed[id] {
			delete(w.snaps, id)
			continue
		}
		w.r.Fail(oracle, "snapshot-lost", "%s: snapshot %s disappeared although nothing was asked to remove it", where, id[:8])
	}
}

func (w *world) sortedSnaps() []string {
	var ids []string
	for id := range w.snaps {
		ids = append(ids, id)
	}
	sort.Strings(ids)
	return ids
}

// pruneOpts draws prune options from the tape.
func (w *world) genPruneOpts() (PruneOptions, string) {
	tp := w.tp
	o := PruneOptions{}
	o.MaxUnused = []string{"5%", "0", "unlimited", "20k", "50%"}[tp.Choose(5)]
	o.MaxRepackSize = []string{"", "", "0", "60k", "1M"}[tp.Choose(5)]
	if tp.Choose(4) == 0 {
		o.SmallPackSize = fmt.Sprint(w.cfg.PackSize / []int{2, 4, 16}[tp.Choose(3)])
	}
	if tp.Choose(5) == 0 {
		o.RepackCacheableOnly = true
	}
	if tp.Choose(5) == 0 && w.cfg.Version == 2 && w.cfg.Comp.String() != "off" {
		o.RepackUncompressed = true
	}
	desc := fmt.Sprintf("max-unused=%s max-repack-size=%q small=%q cacheable-only=%v uncompressed=%v", o.MaxUnused, o.MaxRepackSize, o.SmallPackSize, o.RepackCacheableOnly, o.RepackUncompressed)
	return o, desc
}

func (w *world) cmdTag(pr *proc, ids []string, add string) error {
	return pr.run(func(ctx context.Context, g global.Options, term ui.Terminal) error {
		return runTag(ctx, TagOptions{AddTags: data.TagLists{data.TagList{add}}}, g, term, ids)
	})
}

func (w *world) cmdRewriteExclude(pr *proc, ids []string, name string, forget bool) error {
	return pr.run(func(ctx context.Context, g global.Options, term ui.Terminal) error {
		o := RewriteOptions{Forget: forget}
		o.Excludes = []string{name}
		return runRewrite(ctx, o, g, ids, term)
	})
}

func (w *world) cmdRepairIndex(pr *proc, readAll bool) error {
	return pr.run(func(ctx context.Context, g global.Options, term ui.Terminal) error {
		return runRebuildIndex(ctx, RepairIndexOptions{ReadAllPacks: readAll}, g, term)
	})
}

func (w *world) cmdKeyAdd(pr *proc, newpw string) error {
	testKeyNewPassword = newpw
	defer func() { testKeyNewPassword = "" }()
	return pr.run(func(ctx context.Context, g global.Options, term ui.Terminal) error {
		return runKeyAdd(ctx, g, KeyAddOptions{}, nil, term)
	})
}

func (w *world) cmdKeyPasswd(pr *proc, newpw string) error {
	testKeyNewPassword = newpw
	defer func() { testKeyNewPassword = "" }()
	return pr.run(func(ctx context.Context, g global.Options, term ui.Terminal) error {
		return runKeyPasswd(ctx, g, KeyPasswdOptions{}, nil, term)
	})
}

func (w *world) cmdKeyRemove(pr *proc, id string) error {
	return pr.run(func(ctx context.Context, g global.Options, term ui.Terminal) error {
		return runKeyRemove(ctx, g, []string{id}, term)
	})
}

// removeNamed returns a copy of root without any node called name.
func removeNamed(root *simfs.Node, name string) *simfs.Node {
	c := *root
	c.Kids = nil
	for _, k := range root.Kids {
		if k.Name == name {
			continue
		}
		c.Kids = append(c.Kids, removeNamed(k, name))
	}
	return &c
}

// anyFileName returns the name of some regular file in the tree ("" if none).
func (w *world) anyFileName(root *simfs.Node) string {
	var dirs, files []*simfs.Node
	collect(root, &dirs, &files)
	if len(files) == 0 {
		return ""
	}
	return files[w.tp.Choose(len(files))].Name
}

// setup initialises the repository (pass-through scheduling) and fetches the master key.
func (w *world) setup() bool {
	var err error
	w.free(func() {
		if err = w.cmdInit(w.newProc("init")); err == nil {
			err = w.fetchKey()
		}
	})
	if err != nil {
		w.r.Abort = "setup: " + err.Error()
		return false
	}
	return true
}

// recoverLocks does what a user does after a crashed process: `restic unlock`.
func (w *world) recoverLocks(where string) {
	w.free(func() {
		if err := w.cmdUnlock(w.newProc("unlock")); err != nil {
			w.r.Fail("recovery", "unlock-failed", "%s: unlock failed: %v", where, err)
		}
	})
}

// backupOK runs a fault-free, scheduled backup that must succeed and records it in the model.
func (w *world) backupOK(tree *simfs.Node, opts BackupOptions, what string) bool {
	res := w.cmdBackup(w.newProc("backup"), tree, opts)
	if res.Err != nil || res.NewID == "" {
		w.r.Fail("fault-free-backup", "backup-failed", "%s: fault-free backup failed: %v (snapshot %q)", what, res.Err, res.NewID)
		return false
	}
	w.snaps[res.NewID] = &snapModel{ID: res.NewID, Root: tree}
	return true
}

// backupFaulty runs a backup with a fault; whatever snapshot becomes durable is recorded.
func (w *world) backupFaulty(tree *simfs.Node, f fault) {
	pr := w.newProc("backup")
	w.arm(pr, f)
	res := w.cmdBackup(pr, tree, BackupOptions{})
	w.disarm()
	if res.NewID != "" {
		w.snaps[res.NewID] = &snapModel{ID: res.NewID, Root: tree}
	}
	if pr.cl.Dead {
		w.r.Count("crashed_ops", 1)
	}
}
