package main

import (
	"strings"
	"context"
	"fmt"
	"sort"
	"testing"
	"time"

	"github.com/restic/restic/internal/backend"
	"github.com/restic/restic/internal/global"
	"github.com/restic/restic/internal/ui"
	"github.com/restic/restic/internal/verif/hx"
	"github.com/restic/restic/internal/verif/model"
	"github.com/restic/restic/internal/verif/simfs"
	"github.com/restic/restic/internal/verif/simrt"
)

func (w *world) cmdRewriteMeta(pr *proc, ids []string, host string, forget bool) error {
	return pr.run(func(ctx context.Context, g global.Options, term ui.Terminal) error {
		o := RewriteOptions{Forget: forget}
		o.Metadata.Hostname = host
		return runRewrite(ctx, o, g, ids, term)
	})
}

func (w *world) cmdRepairSnapshots(pr *proc, ids []string, forget bool) error {
	return pr.run(func(ctx context.Context, g global.Options, term ui.Terminal) error {
		return runRepairSnapshots(ctx, g, RepairOptions{Forget: forget}, ids, term)
	})
}

// decodedSnapshots returns the decoder's view of all snapshot files.
func (w *world) decodedSnapshots() map[string]*model.Snapshot {
	out := map[string]*model.Snapshot{}
	for _, id := range w.snapshotIDs() {
		sn, err := model.DecodeSnapshot(w.key, id, w.store.Get(backend.Handle{Type: backend.SnapshotFile, Name: id}))
		if err == nil {
			out[id] = sn
		}
	}
	return out
}

// TestVerifC26: snapshot rewrites never lose the snapshot at any crash point.
// One or two chained operations out of tag, rewrite --exclude, rewrite
// --new-host, repair snapshots on generated snapshots; the last operation is
// repeated with a crash after every one of its applied backend mutations (the
// space is small and swept completely).
func TestVerifC26(t *testing.T) {
	hx.Main(t, "C26", func(r *hx.Rec) {
		tp := r.Tape
		cfg := genCfg(tp)
		w := newWorld(r, cfg)
		r.Set("cfg", cfg.String())
		simrt.Run(r.T, w.s, 15*time.Minute, func() {
			w.begin()
			defer w.end()
			if !w.setup() {
				return
			}
			tree := w.genTree(10)
			if !w.backupOK(tree, BackupOptions{}, "backup") {
				return
			}
			if tp.Choose(2) == 0 {
				if !w.backupOK(w.mutateTree(tree), BackupOptions{}, "backup 2") {
					return
				}
			}
			ids := w.sortedSnaps()
			target := ids[tp.Choose(len(ids))]
			first := target // ID of the very first snapshot of the chain
			// optionally one fault-free rewrite first, so that the swept operation works on an already rewritten snapshot
			var hist []string
			// other snapshots handled by the same invocation as the target (batching across snapshots)
			var extra []string
			doOp := func(kind string, id string, f fault, n int) (string, error, *proc) {
				pr := w.newProc(kind)
				w.arm(pr, f)
				var err error
				all := append([]string{id}, extra...)
				switch kind {
				case "tag":
					err = w.cmdTag(pr, all, fmt.Sprintf("tag%d", n))
					for _, x := range all {
						w.syncModel(x, nil)
					}
				case "rewrite-host-multi":
					err = w.cmdRewriteMeta(pr, all, fmt.Sprintf("newhost%d", n), true)
					for _, x := range all {
						w.syncModel(x, nil)
					}
				case "rewrite-exclude":
					name := w.anyFileName(w.snaps[id].Root)
					if name == "" {
						name = "does-not-exist"
					}
					err = w.cmdRewriteExclude(pr, []string{id}, name, true)
					w.syncModel(id, func(old *simfs.Node) *simfs.Node { return removeNamed(old, name) })
				case "rewrite-keep":
					name := w.anyFileName(w.snaps[id].Root)
					if name == "" {
						name = "does-not-exist"
					}
					err = w.cmdRewriteExclude(pr, []string{id}, name, false)
					w.syncModel(id, func(old *simfs.Node) *simfs.Node { return removeNamed(old, name) })
				case "rewrite-host":
					err = w.cmdRewriteMeta(pr, []string{id}, fmt.Sprintf("newhost%d", n), true)
					w.syncModel(id, nil)
				}
				w.disarm()
				return kind, err, pr
			}
			kinds := []string{"tag", "rewrite-exclude", "rewrite-host", "rewrite-keep", "tag"}
			if tp.Choose(2) == 0 {
				k := kinds[tp.Choose(len(kinds))]
				before := map[string]bool{}
				for _, id := range w.snapshotIDs() {
					before[id] = true
				}
				_, err, _ := doOp(k, target, fault{}, 0)
				if err != nil {
					r.Fail("fault-free-op", "op-failed", "fault-free %s failed: %v", k, err)
					return
				}
				hist = append(hist, k)
				// continue with the snapshot that replaced the target (if it was replaced)
				if w.store.Get(backend.Handle{Type: backend.SnapshotFile, Name: target}) == nil {
					delete(w.snaps, target)
					for _, id := range w.snapshotIDs() {
						if !before[id] {
							target = id
						}
					}
				}
			}
			kind := kinds[tp.Choose(len(kinds))]
			if tp.Choose(3) == 0 {
				// several snapshots in one invocation
				for _, id := range w.sortedSnaps() {
					if id != target {
						extra = append(extra, id)
					}
				}
				if len(extra) > 0 && tp.Choose(2) == 0 {
					kind = "rewrite-host-multi"
				} else if len(extra) > 0 {
					kind = "tag"
				}
			}
			hist = append(hist, fmt.Sprintf("%s(swept, %d snapshots)", kind, 1+len(extra)))
			r.Set("history", fmt.Sprint(hist))
			w.postRun()
			if r.Failed() || w.snaps[target] == nil {
				return
			}
			s0 := w.store.Clone()
			snaps0 := map[string]*snapModel{}
			for k, v := range w.snaps {
				snaps0[k] = v
			}
			oldTree := w.decodedSnapshots()[target]
			// the oracle after a stop of the swept operation
			judge := func(where string, finished bool) {
			// oracle: old or new exists
			dec := w.decodedSnapshots()
			var successors []string
			for id, sn := range dec {
				if id != target && (sn.Original == first || sn.Original == target) {
					if _, known0 := snaps0[id]; !known0 {
						successors = append(successors, id)
					}
				}
			}
			sort.Strings(successors)
			_, oldThere := dec[target]
			if !oldThere && len(successors) == 0 {
				r.Fail("old-or-new", "snapshot-lost", "%s: neither the old snapshot %s nor a rewritten one exists", where, target[:8])
			}
			for _, id := range successors {
				sn := dec[id]
				// tag retains the very first ID over all changes; rewrite names the snapshot it
				// rewrote (restic resets `original` there on purpose) - both are "the first of the two"
				if kind == "tag" && sn.Original != first {
					r.Fail("original", "wrong-original", "%s: retagged snapshot %s has original %q, want the first snapshot's ID %s", where, id[:8], sn.Original, first[:8])
				}
				if (kind == "tag" || kind == "rewrite-host" || kind == "rewrite-host-multi") && len(extra) == 0 && oldTree != nil && sn.Tree != oldTree.Tree {
					r.Fail("tree", "tree-changed", "%s: %s changed the tree from %s to %s", where, kind, oldTree.Tree[:8], sn.Tree[:8])
				}
			}
			if finished && kind != "rewrite-keep" && oldThere && len(successors) > 0 && len(extra) == 0 {
				r.Fail("old-removed", "old-not-removed", "%s: the old snapshot still exists after the operation completed", where)
			}
			for _, x := range extra {
				if _, there := dec[x]; there {
					continue
				}
				found := false
				xo := x
				if m := snaps0[x]; m != nil && m.Orig != "" {
					xo = m.Orig
				}
				for id, sn := range dec {
					if _, known0 := snaps0[id]; !known0 && (sn.Original == x || sn.Original == xo) {
						found = true
					}
				}
				if !found {
					r.Fail("old-or-new", "snapshot-lost", "%s: of snapshot %s (handled in the same invocation) neither the old nor a rewritten one exists", where, x[:8])
				}
			}
			// everything present must be complete and restore as the model says
			w.recoverLocks(where)
			gone := map[string]bool{target: true}
			for _, x := range extra {
				gone[x] = true
			}
			w.dropGone(gone, "other-snapshots", where)
			w.snapshotsComplete("complete-snapshots", where)
			w.verifyAll("content", where)
			}
			points := 0
			completed := false
			for k := 1; k < 200 && !r.Failed(); k++ {
				if k > 1 {
					w.store.Restore(s0)
					w.snaps = map[string]*snapModel{}
					for id, v := range snaps0 {
						w.snaps[id] = v
					}
				}
				_, err, pr := doOp(kind, target, fault{Kind: "crash", At: k}, k)
				w.postRun()
				points++
				where := fmt.Sprintf("history %v, crash after mutation %d of %s", hist, k, kind)
				if !pr.cl.Dead {
					completed = true
					where = fmt.Sprintf("history %v, %s completed", hist, kind)
					if err != nil {
						r.Fail("op-result", "failed-without-fault", "%s: failed without a fault: %v", where, err)
					}
				}
				judge(where, completed)
				if completed {
					break
				}
			}
			// error sweep: the k-th Save/Remove attempt of the operation fails once, without effect or
			// after it took effect (lost response); the retry layer and the command deal with it
			errPoints := 0
			for k := 1; k < 60 && !r.Failed(); k++ {
				fired := false
				for _, fk := range []string{"errafter", "errbefore", "sticky-save", "sticky-remove"} {
					if strings.HasPrefix(fk, "sticky") && k > 3 {
						continue
					}
					w.store.Restore(s0)
					w.snaps = map[string]*snapModel{}
					for id, v := range snaps0 {
						w.snaps[id] = v
					}
					w.forcedFired = 0
					f := fault{Kind: fk, At: k}
					switch fk {
					case "sticky-save":
						// the k-th snapshot file this invocation tries to save cannot be saved at all
						f = fault{Kind: "sticky", Op: "Save", Type: backend.SnapshotFile, At: k}
					case "sticky-remove":
						f = fault{Kind: "sticky", Op: "Remove", Type: backend.SnapshotFile, At: k}
					}
					_, err, _ := doOp(kind, target, f, 1000+k)
					w.postRun()
					if w.forcedFired == 0 {
						continue
					}
					fired = true
					errPoints++
					judge(fmt.Sprintf("history %v, %s with %s (result: %v)", hist, kind, f.String(), err), false)
					if r.Failed() {
						break
					}
				}
				if !fired {
					break
				}
			}
			r.Count("error_points", errPoints)
			r.Count("crash_points", points)
			if completed {
				r.Count("sweeps_completed", 1)
			}
			r.Nontriv = true
		})
	})
}
