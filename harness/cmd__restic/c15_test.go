package main

import (
	"fmt"
	"testing"
	"time"

	"github.com/restic/restic/internal/verif/hx"
	"github.com/restic/restic/internal/verif/simfs"
	"github.com/restic/restic/internal/verif/simrt"
)

// TestVerifC15: check reports no errors on any repository restic itself
// produced. Histories of up to 8 operations over the commands (backup,
// forget, prune, forget --prune, tag, rewrite, key add/passwd, repair index),
// each optionally crashed at a tape-chosen mutation, cancelled or given
// transient errors; real `check --read-data` after every interrupted
// operation and at the end.
func TestVerifC15(t *testing.T) {
	hx.Main(t, "C15", func(r *hx.Rec) { runHistory(r, false) })
}

// runHistory is shared by C15 (check is clean on every produced repository)
// and C04 (secrecy monitor over everything that is ever stored).
func runHistory(r *hx.Rec, secrecy bool) {
	{
		tp := r.Tape
		cfg := genCfg(tp)
		w := newWorld(r, cfg)
		w.markers = secrecy
		nOps := tp.Range(2, 8)
		r.Set("cfg", cfg.String())
		simrt.Run(r.T, w.s, 15*time.Minute, func() {
			w.begin()
			defer w.end()
			var mon *secrecyMonitor
			if secrecy {
				mon = w.newSecrecyMonitor()
			}
			if !w.setup() {
				return
			}
			if mon != nil {
				mon.key = w.key
				defer mon.finish()
			}
			tree := w.genTree(10)
			var hist []string
			for i := 0; i < nOps && !r.Failed(); i++ {
				f := w.genFault("cancel")
				kind := []string{"backup", "backup", "backup", "forget", "prune", "forget-prune", "tag", "rewrite", "keyadd", "keypasswd", "repair-index"}[tp.Choose(11)]
				if i == 0 {
					kind = "backup"
				}
				pr := w.newProc(kind)
				w.arm(pr, f)
				var err error
				desc := kind
				switch kind {
				case "backup":
					res := w.cmdBackup(pr, tree, BackupOptions{Force: tp.Choose(4) == 0})
					err = res.Err
					if res.NewID != "" {
						w.snaps[res.NewID] = &snapModel{ID: res.NewID, Root: tree}
					}
					tree = w.mutateTree(tree)
				case "forget", "forget-prune":
					ids := w.sortedSnaps()
					allowed := map[string]bool{}
					var sel []string
					for _, id := range ids {
						if tp.Choose(2) == 0 {
							sel = append(sel, id)
							allowed[id] = true
						}
					}
					if len(sel) == 0 {
						desc += "(nothing)"
						break
					}
					popts, pd := w.genPruneOpts()
					desc += fmt.Sprintf("(%d snapshots; %s)", len(sel), pd)
					err = w.cmdForget(pr, sel, kind == "forget-prune", popts)
					w.dropGone(allowed, "history", desc)
				case "prune":
					popts, pd := w.genPruneOpts()
					desc += "(" + pd + ")"
					err = w.cmdPrune(pr, popts)
				case "tag":
					ids := w.sortedSnaps()
					if len(ids) == 0 {
						break
					}
					id := ids[tp.Choose(len(ids))]
					err = w.cmdTag(pr, []string{id}, fmt.Sprintf("t%d", i))
					w.syncModel(id, nil)
					w.dropGone(map[string]bool{id: true}, "history", desc)
				case "rewrite":
					ids := w.sortedSnaps()
					if len(ids) == 0 {
						break
					}
					id := ids[tp.Choose(len(ids))]
					name := w.anyFileName(w.snaps[id].Root)
					if name == "" {
						break
					}
					forget := tp.Choose(2) == 0
					desc += fmt.Sprintf("(exclude %s, forget=%v)", name, forget)
					err = w.cmdRewriteExclude(pr, []string{id}, name, forget)
					w.syncModel(id, func(old *simfs.Node) *simfs.Node { return removeNamed(old, name) })
					w.dropGone(map[string]bool{id: forget}, "history", desc)
				case "keyadd":
					err = w.cmdKeyAdd(pr, fmt.Sprintf("extra-%d", i))
				case "keypasswd":
					// the world keeps using the original password: only change it when nothing can interrupt
					if f.Kind == "" {
						err = w.cmdKeyPasswd(pr, w.pw)
					}
				case "repair-index":
					err = w.cmdRepairIndex(pr, tp.Choose(2) == 0)
				}
				w.disarm()
				w.postRun()
				hist = append(hist, desc+" ["+f.String()+"]")
				interrupted := pr.cl.Dead || err != nil
				if err != nil && w.faultsFired() == 0 {
					r.Fail("history", "op-failed-without-fault", "operation %d %s failed without any injected fault: %v", i, desc, err)
				}
				if interrupted {
					r.Count("interrupted_ops", 1)
					w.recoverLocks(desc)
					w.checkClean("check-after-interruption", fmt.Sprintf("history %v", hist))
				}
			}
			r.Set("history", fmt.Sprint(hist))
			r.Count("ops", len(hist))
			w.recoverLocks("end")
			w.checkClean("check-at-end", fmt.Sprintf("history %v", hist))
			w.verifyAll("snapshots-at-end", fmt.Sprintf("history %v", hist))
		})
	}
}
