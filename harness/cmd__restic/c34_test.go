package main

import (
	"context"
	"encoding/json"
	"fmt"
	"os"
	"sort"
	"strings"
	"testing"
	"time"

	"github.com/restic/restic/internal/backend"
	"github.com/restic/restic/internal/global"
	"github.com/restic/restic/internal/ui"
	"github.com/restic/restic/internal/verif/hx"
	"github.com/restic/restic/internal/verif/model"
	"github.com/restic/restic/internal/verif/simbe"
	"github.com/restic/restic/internal/verif/simrt"
)

func (w *world) cmdRepairPacks(pr *proc, ids []string) error {
	err := pr.run(func(ctx context.Context, g global.Options, term ui.Terminal) error {
		return runRepairPacks(ctx, g, term, ids)
	})
	// the command leaves backup copies "pack-<id>" in the working directory
	for _, id := range ids {
		_ = os.Remove("pack-" + id)
	}
	return err
}

type fileEntry struct {
	content []string
	ok      bool // all ancestor trees decodable
}

// walkFiles lists path -> content IDs of all regular files reachable from tree using the decoder's view.
func walkFiles(v *model.StoreView, tree, prefix string, out map[string]fileEntry) {
	pt := v.Plain("tree/" + tree)
	if pt == nil || !v.Available("tree/"+tree) {
		return
	}
	var t model.Tree
	if json.Unmarshal(pt, &t) != nil {
		return
	}
	for _, n := range t.Nodes {
		p := prefix + "/" + n.Name
		switch n.Type {
		case "file":
			out[p] = fileEntry{content: n.Content, ok: true}
		case "dir":
			if n.Subtree != "" {
				walkFiles(v, n.Subtree, p, out)
			}
		}
	}
}

// TestVerifC34: repair packs and repair snapshots salvage all intact data.
// Generated repositories; one or two packs are damaged at rest (bit flip in a
// blob's nonce/ciphertext/MAC, truncation, header damage); `repair packs` runs
// scheduled (optionally crashed at a sampled point and re-run) with a monitor
// that, at the instant a damaged pack is removed, requires every blob that was
// still readable from it to be available from another uploaded and indexed
// pack; then `repair snapshots --forget`; then check must pass and every file
// whose blobs (and directories) are all still available is unchanged.
func TestVerifC34(t *testing.T) {
	hx.Main(t, "C34", func(r *hx.Rec) {
		tp := r.Tape
		cfg := genCfg(tp)
		w := newWorld(r, cfg)
		nBackups := tp.Range(1, 3)
		crashFirst := tp.Choose(4) == 0
		r.Set("cfg", cfg.String())
		simrt.Run(r.T, w.s, 15*time.Minute, func() {
			w.begin()
			defer w.end()
			if !w.setup() {
				return
			}
			tree := w.genTree(12)
			okb := true
			dupMode := tp.Choose(4) == 0 // the same blobs in two packs: a crashed backup, the same data again, repair index
			if dupMode {
				f := fault{Kind: "crash", At: 4 + tp.Choose(16)}
				w.backupFaulty(tree, f)
				w.recoverLocks("after crashed backup")
			}
			w.free(func() {
				for i := 0; i < nBackups && okb; i++ {
					okb = w.backupOK(tree, BackupOptions{}, fmt.Sprintf("backup %d", i))
					tree = w.mutateTree(tree)
				}
				if okb && dupMode {
					if err := w.cmdRepairIndex(w.newProc("repair-index"), false); err != nil {
						okb = false
						r.Fail("history", "repair-index-failed", "repair index failed: %v", err)
					}
				}
			})
			w.postRun()
			if !okb || r.Failed() {
				return
			}
			before := model.View(w.key, w.store.Clone(), true)
			// pairs of packs that share a blob (targets for damage in both)
			var sharing [][2]string
			if dupMode {
				seenPair := map[[2]string]bool{}
				for _, es := range before.Indexed {
					for i := range es {
						for j := i + 1; j < len(es); j++ {
							a, b := es[i].Pack, es[j].Pack
							if a == b || before.Packs[a] == nil || before.Packs[b] == nil {
								continue
							}
							if a > b {
								a, b = b, a
							}
							if !seenPair[[2]string{a, b}] {
								seenPair[[2]string{a, b}] = true
								sharing = append(sharing, [2]string{a, b})
							}
						}
					}
				}
				sort.Slice(sharing, func(i, j int) bool { return sharing[i][0]+sharing[i][1] < sharing[j][0]+sharing[j][1] })
				r.Count("pack_pairs_sharing_a_blob", len(sharing))
			}
			packs := w.store.Names(backend.PackFile)
			if len(packs) == 0 {
				return
			}
			// files of every snapshot before the damage
			filesBefore := map[string]map[string]fileEntry{} // snapshot id -> path -> entry
			for id, sn := range before.Snapshots {
				m := map[string]fileEntry{}
				walkFiles(before, sn.Tree, "", m)
				filesBefore[id] = m
			}
			// damage
			nDamage := tp.Range(1, 2)
			damaged := map[string]bool{}
			var desc []string
			var pair [2]string
			if len(sharing) > 0 && tp.Choose(4) != 0 {
				pair = sharing[tp.Choose(len(sharing))]
				nDamage = 2
			}
			for d := 0; d < nDamage; d++ {
				name := packs[tp.Choose(len(packs))]
				if pair[0] != "" {
					name = pair[d]
				}
				if damaged[name] {
					continue
				}
				h := backend.Handle{Type: backend.PackFile, Name: name}
				data := append([]byte(nil), w.store.Get(h)...)
				pc := before.Packs[name]
				if pc == nil || len(pc.Blobs) == 0 {
					continue
				}
				switch tp.Choose(4) {
				case 0, 1:
					b := pc.Blobs[tp.Choose(len(pc.Blobs))]
					pos := int(b.Offset) + tp.Choose(int(b.Length))
					data[pos] ^= 0x08
					desc = append(desc, fmt.Sprintf("flip a bit in blob %s of pack %s", b.Key()[:13], name[:8]))
					w.s.Count("fault:blob-bit-flipped")
				case 2:
					cut := 1 + tp.Choose(len(data)-1)
					data = data[:cut]
					desc = append(desc, fmt.Sprintf("truncate pack %s to %d bytes", name[:8], cut))
					w.s.Count("fault:pack-truncated")
				case 3:
					data[len(data)-1-tp.Choose(pc.HeaderLen)] ^= 0x02
					desc = append(desc, fmt.Sprintf("damage the header of pack %s", name[:8]))
					w.s.Count("fault:pack-header-damaged")
				}
				w.store.Put(h, data)
				damaged[name] = true
			}
			if len(damaged) == 0 {
				return
			}
			var ids []string
			for id := range damaged {
				ids = append(ids, id)
			}
			sort.Strings(ids)
			r.Set("damage", fmt.Sprint(desc))
			r.CaseKey = cfg.String() + fmt.Sprint(desc)
			where := fmt.Sprint(desc)
			// which blobs can still be read from the damaged packs (at the indexed positions)?
			salvageable := map[string]bool{}
			for key, es := range before.Indexed {
				for _, e := range es {
					if !damaged[e.Pack] {
						continue
					}
					data := w.store.Get(backend.Handle{Type: backend.PackFile, Name: e.Pack})
					if int(e.Offset+e.Length) > len(data) {
						continue
					}
					if model.BlobReadable(w.key, data[e.Offset:e.Offset+e.Length], e.ULen, key[len(key)-64:]) {
						salvageable[key] = true
					}
				}
			}
			r.Count("salvageable_blobs", len(salvageable))
			// monitor: at the removal of a damaged pack everything salvageable must be available elsewhere
			monitor := func(m simbe.Mutation, _ []byte) {
				if m.Op != "remove" || m.H.Type != backend.PackFile || !damaged[m.H.Name] {
					return
				}
				v := model.View(w.key, w.store.Clone(), false)
				var keys []string
				for k := range salvageable {
					keys = append(keys, k)
				}
				sort.Strings(keys)
				for _, k := range keys {
					if !v.Available(k) {
						r.Fail("salvage-before-remove", "readable-blob-lost", "damage %s: pack %s was removed although blob %s, still readable from a damaged pack, is not in any other uploaded and indexed pack", where, m.H.Name[:8], k[:13])
						return
					}
				}
			}
			w.keepMonitors = append(w.keepMonitors, monitor)
			w.disarm() // installs keepMonitors
			pr := w.newProc("repair-packs")
			if crashFirst {
				pr.cl.CrashAt = 1 + tp.Choose(12)
			}
			err := w.cmdRepairPacks(pr, ids)
			w.postRun()
			if pr.cl.Dead {
				r.Count("repair_packs_crashed", 1)
				w.recoverLocks(where)
				var err2 error
				w.free(func() {
					// simply run it again (a `repair index` in between would drop the index entries of a pack
					// with an unreadable header, which are the only record of where its blobs are)
					err2 = w.cmdRepairPacks(w.newProc("repair-packs-2"), ids)
				})
				if err2 != nil {
					r.Fail("repair-result", "repair-packs-retry-failed", "damage %s: repair packs after an interrupted run failed: %v", where, err2)
					return
				}
			} else if err != nil {
				r.Fail("repair-result", "repair-packs-failed", "damage %s: repair packs failed: %v\n%s", where, err, firstLines(pr.term.Err(), 8))
				return
			}
			w.keepMonitors = nil
			w.disarm()
			if r.Failed() {
				return
			}
			for id := range damaged {
				if w.store.Get(backend.Handle{Type: backend.PackFile, Name: id}) != nil {
					r.Fail("repair-result", "damaged-pack-kept", "damage %s: pack %s still exists after repair packs", where, id[:8])
				}
			}
			// what is available when repair snapshots starts (it may re-create a tree that was lost, when a
			// repaired tree happens to equal it)
			mid := model.View(w.key, w.store.Clone(), true)
			// repair snapshots --forget
			var serr error
			w.free(func() { serr = w.cmdRepairSnapshots(w.newProc("repair-snapshots"), nil, true) })
			if serr != nil {
				r.Fail("repair-result", "repair-snapshots-failed", "damage %s: repair snapshots failed: %v", where, serr)
				return
			}
			w.checkClean("check-after-repair", "damage "+where+", repair packs, repair snapshots --forget")
			if r.Failed() {
				return
			}
			// every file whose data is fully available is unchanged
			after := model.View(w.key, w.store.Clone(), true)
			succ := map[string]string{} // original snapshot -> snapshot after repair
			for id, sn := range after.Snapshots {
				if _, was := before.Snapshots[id]; was {
					succ[id] = id
				} else if sn.Original != "" {
					succ[sn.Original] = id
				}
			}
			var sids []string
			for id := range before.Snapshots {
				sids = append(sids, id)
			}
			sort.Strings(sids)
			for _, sid := range sids {
				nid, ok := succ[sid]
				if !ok {
					// the snapshot may only vanish if its root tree is gone
					if mid.Available("tree/" + before.Snapshots[sid].Tree) {
						r.Fail("files-kept", "snapshot-dropped", "damage %s: snapshot %s has no successor although its root tree is still available", where, sid[:8])
					}
					continue
				}
				filesAfter := map[string]fileEntry{}
				walkFiles(after, after.Snapshots[nid].Tree, "", filesAfter)
				var paths []string
				for p := range filesBefore[sid] {
					paths = append(paths, p)
				}
				sort.Strings(paths)
				for _, p := range paths {
					fe := filesBefore[sid][p]
					intact := true
					for _, c := range fe.content {
						if !after.Available("data/" + c) {
							intact = false
						}
					}
					// all ancestor directories must be decodable from what is left: approximated by the file
					// being reachable when walking the ORIGINAL tree with the blobs available now
					reach := map[string]fileEntry{}
					walkFiles(after, before.Snapshots[sid].Tree, "", reach)
					if _, reachable := reach[p]; !reachable || !intact {
						continue
					}
					got, present := filesAfter[p]
					if !present {
						r.Fail("files-kept", "intact-file-removed", "damage %s: file %s of snapshot %s has all its data and directories available but is missing after repair snapshots", where, p, sid[:8])
						return
					}
					if strings.Join(got.content, ",") != strings.Join(fe.content, ",") {
						r.Fail("files-kept", "intact-file-changed", "damage %s: file %s of snapshot %s has all its data available but its content list changed", where, p, sid[:8])
						return
					}
					r.Count("intact_files_checked", 1)
				}
			}
		})
	})
}
