package main

import (
	"context"
	"fmt"
	"os"
	"strings"
	"sync"
	"testing"
	"time"

	bfuse "github.com/anacrolix/fuse"
	fusefs "github.com/anacrolix/fuse/fs"
	"github.com/restic/restic/internal/backend"
	"github.com/restic/restic/internal/fuse"
	"github.com/restic/restic/internal/global"
	"github.com/restic/restic/internal/ui"
	"github.com/restic/restic/internal/ui/progress"
	"github.com/restic/restic/internal/verif/hx"
	"github.com/restic/restic/internal/verif/model"
	"github.com/restic/restic/internal/verif/simbe"
	"github.com/restic/restic/internal/verif/simfs"
	"github.com/restic/restic/internal/verif/simrt"
)

// mountWalk opens the repository the way `restic mount` does and reads every
// directory below ids/ through the FUSE node interface.
func mountWalk(ctx context.Context, g global.Options, term ui.Terminal, again bool) error {
	printer := progress.NewTerminalPrinter(false, 0, term)
	ctx, repo, unlock, err := openWithReadLock(ctx, g, g.NoLock, printer)
	if err != nil {
		return err
	}
	defer unlock()
	if err := repo.LoadIndex(ctx, printer); err != nil {
		return err
	}
	root := fuse.NewRoot(repo, fuse.Config{OwnerIsRoot: true, TimeTemplate: time.RFC3339, PathTemplates: []string{"ids/%i"}})
	var walk func(n fusefs.Node, path string, depth int) error
	walk = func(n fusefs.Node, path string, depth int) error {
		rd, ok := n.(fusefs.HandleReadDirAller)
		if !ok || depth > 12 {
			return nil
		}
		ents, err := rd.ReadDirAll(ctx)
		if err != nil {
			return fmt.Errorf("mount: reading directory %s: %w", path, err)
		}
		for _, e := range ents {
			if e.Name == "." || e.Name == ".." || e.Type != bfuse.DT_Dir {
				continue
			}
			child, err := n.(fusefs.NodeStringLookuper).Lookup(ctx, e.Name)
			if err != nil {
				return fmt.Errorf("mount: %s/%s is listed but cannot be opened: %w", path, e.Name, err)
			}
			if err := walk(child, path+"/"+e.Name, depth+1); err != nil {
				return err
			}
		}
		return nil
	}
	if err := walk(root, "", 0); err != nil {
		return err
	}
	if again {
		time.Sleep(61 * time.Second)
		return walk(root, "", 0)
	}
	return nil
}

func benignReaderError(err error) bool {
	if err == nil {
		return true
	}
	s := err.Error()
	return strings.Contains(s, "no snapshot found") || strings.Contains(s, "no matching ID found") || strings.Contains(s, "no snapshots")
}

// TestVerifC14: readers never see a snapshot whose data is not yet indexed.
// One or two concurrent backups and one to three concurrent reader processes
// running real reading commands (ls, find, dump, restore, diff, check
// --no-lock) are interleaved at backend-operation (and optionally mutex)
// granularity. A monitor decodes the store at the instant every snapshot file
// is saved; no reader may fail.
func TestVerifC14(t *testing.T) {
	hx.Main(t, "C14", func(r *hx.Rec) {
		tp := r.Tape
		cfg := genCfg(tp)
		w := newWorld(r, cfg)
		nWriters := tp.Range(1, 2)
		nReaders := tp.Range(1, 3)
		withInitial := tp.Choose(3) != 0
		withRetryFaults := tp.Choose(4) == 0
		stickyIndex := tp.Choose(5) == 0
		r.Set("cfg", cfg.String())
		r.Set("writers", nWriters)
		r.Set("readers", nReaders)
		r.Set("initial_snapshot", withInitial)
		r.Set("transient_errors", withRetryFaults)
		r.Set("one_index_upload_fails_for_good", stickyIndex)
		simrt.Run(r.T, w.s, 15*time.Minute, func() {
			w.begin()
			defer w.end()
			if !w.setup() {
				return
			}
			tree := w.genTree(10)
			if withInitial {
				var ok bool
				w.free(func() { ok = w.backupOK(tree, BackupOptions{}, "initial backup") })
				if !ok {
					return
				}
			}
			// monitor: every snapshot must be complete at the instant it becomes visible
			w.store.OnMutation = append(w.store.OnMutation, func(m simbe.Mutation, _ []byte) {
				if m.Op != "save" || m.H.Type != backend.SnapshotFile {
					return
				}
				view := model.View(w.key, w.store.Clone(), false)
				sn := view.Snapshots[m.H.Name]
				if sn == nil {
					r.Fail("order", "undecodable-snapshot", "snapshot %s saved by %s cannot be decoded", m.H.Name[:8], m.Proc)
					return
				}
				if _, missing := view.ReachableNoPlain(sn.Tree); len(missing) > 0 {
					r.Fail("order", "snapshot-before-index", "snapshot %s was saved by %s while %d of its blobs are not yet in a durable index entry with a durable pack (first: %s)", m.H.Name[:8], m.Proc, len(missing), missing[0])
				}
			})
			var mu sync.Mutex
			type rerr struct {
				who, cmd string
				err      error
				out      string
			}
			var readerErrs []rerr
			var writerErrs []rerr
			trees := []*simfs.Node{w.mutateTree(tree), w.genTree(10)}
			for i := 0; i < nWriters; i++ {
				pr := w.newProc("writer")
				if withRetryFaults {
					pr.cl.F = simbe.Faults{ErrBefore: 40, ErrAfter: 40, Budget: 2}
				}
				if stickyIndex {
					// the first (or second) index file this writer tries to store cannot be stored at all
					w.arm(pr, fault{Kind: "sticky", Op: "Save", Type: backend.IndexFile, At: 1 + i%2})
				}
				tr := trees[i]
				delay := time.Duration(tp.Choose(4)) * 150 * time.Millisecond
				sfs := simfs.New(tr)
				sfs.Park = cfg.FSPark
				w.srcMu.Lock()
				w.src[pr.p.Name] = sfs
				w.srcMu.Unlock()
				host := fmt.Sprintf("whost%d", i)
				pr.start(func(ctx context.Context, g global.Options, term ui.Terminal) error {
					time.Sleep(delay)
					o := BackupOptions{Host: host}
					return runBackup(ctx, o, g, term, []string{"src"})
				}, func(err error) {
					if err != nil {
						mu.Lock()
						writerErrs = append(writerErrs, rerr{pr.p.Name, "backup", err, pr.term.Err()})
						mu.Unlock()
					}
				})
			}
			for i := 0; i < nReaders; i++ {
				pr := w.newProc("reader")
				if withRetryFaults {
					pr.cl.F = simbe.Faults{ErrBefore: 40, PartialRead: 30, Budget: 2}
				}
				ncmd := tp.Range(1, 3)
				var cmds []string
				for k := 0; k < ncmd; k++ {
					cmds = append(cmds, []string{"ls", "find", "dump", "restore", "check", "ls-all", "diff", "mount"}[tp.Choose(8)])
				}
				delay := time.Duration(tp.Choose(6)) * 100 * time.Millisecond
				gap := time.Duration(tp.Choose(4)) * 100 * time.Millisecond
				pr.start(func(ctx context.Context, g global.Options, term ui.Terminal) error {
					time.Sleep(delay)
					for _, c := range cmds {
						var err error
						switch c {
						case "ls":
							err = runLs(ctx, LsOptions{Recursive: true}, g, []string{"latest"}, term)
						case "ls-all":
							// list every snapshot file present right now, one after the other
							for _, id := range w.snapshotIDs() {
								if e := runLs(ctx, LsOptions{Recursive: true}, g, []string{id}, term); e != nil {
									err = e
								}
							}
						case "find":
							err = runFind(ctx, FindOptions{}, g, []string{"f*"}, term)
						case "dump":
							err = runDump(ctx, DumpOptions{Archive: "tar"}, g, []string{"latest", "/"}, term)
						case "restore":
							dir, derr := os.MkdirTemp("", "verif-restore-")
							if derr != nil {
								return derr
							}
							err = runRestore(ctx, RestoreOptions{Target: dir}, g, term, []string{"latest"})
							_ = os.RemoveAll(dir)
						case "check":
							g2 := g
							g2.NoLock = true
							_, err = runCheck(ctx, CheckOptions{ReadData: true}, g2, nil, term)
						case "mount":
							// the mount command's view without a kernel mount: open like runMount does, then
							// walk the ids/ directory of the FUSE tree (twice, the second time after the reload interval)
							err = mountWalk(ctx, g, term, tp.Choose(2) == 1)
						case "diff":
							ids := w.snapshotIDs()
							if len(ids) >= 2 {
								err = runDiff(ctx, DiffOptions{}, g, []string{ids[0], ids[len(ids)-1]}, term)
							}
						}
						if !benignReaderError(err) {
							mu.Lock()
							readerErrs = append(readerErrs, rerr{pr.p.Name, c, err, pr.term.Err()})
							mu.Unlock()
						}
						time.Sleep(gap)
					}
					return nil
				}, nil)
			}
			w.s.Loop()
			w.store.OnMutation = nil
			w.postRun()
			faults := w.faultsFired()
			for _, e := range readerErrs {
				if faults == 0 || strings.Contains(e.err.Error(), "not found in") || strings.Contains(e.out, "not found in") {
					r.Fail("reader", "reader-failed", "reader %s: %s failed while backups were running: %v\n%s", e.who, e.cmd, e.err, firstLines(e.out, 8))
				}
			}
			for _, e := range writerErrs {
				if faults == 0 {
					r.Fail("writer", "writer-failed", "writer %s failed without injected faults: %v\n%s", e.who, e.err, firstLines(e.out, 8))
				}
			}
			r.Count("reader_errors_under_faults", len(readerErrs))
			r.Count("snapshots_at_end", len(w.snapshotIDs()))
			if !r.Failed() {
				w.snapshotsComplete("complete-at-end", "after concurrent backups and readers")
				w.checkClean("check-at-end", "after concurrent backups and readers")
			}
		})
	})
}
