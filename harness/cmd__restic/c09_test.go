package main

import (
	"strings"
	"github.com/restic/restic/internal/verif/model"
	"sort"
	"github.com/restic/restic/internal/backend"
	"fmt"
	"testing"
	"time"

	"github.com/restic/restic/internal/verif/hx"
	"github.com/restic/restic/internal/verif/simrt"
)

// TestVerifC09: prune never loses data still referenced by a remaining
// snapshot. Histories of complete and interrupted backups (which leave
// unreferenced, duplicate and unindexed packs behind), then forget + prune with
// generated options; the prune is crashed after its k-th applied mutation
// (sampled, or every k in sweep runs), cancelled, or given transient errors.
// After every stop: remaining snapshots restore equal, check --read-data is
// clean; then a second prune runs to completion and the oracle is repeated.
func TestVerifC09(t *testing.T) {
	hx.Main(t, "C09", func(r *hx.Rec) {
		tp := r.Tape
		cfg := genCfg(tp)
		w := newWorld(r, cfg)
		nBackups := tp.Range(2, 4)
		sweep := tp.Choose(5) == 4
		dupMode := tp.Choose(5) >= 3 // duplicates in the index (crashed backup, same data again, repair index) and a redundant pack that goes missing
		if sweep && hx.Tier() == "quick" && tp.Choose(3) != 0 {
			sweep = false
		}
		r.Set("cfg", cfg.String())
		r.Set("backups", nBackups)
		r.Set("sweep", sweep)
		simrt.Run(r.T, w.s, 15*time.Minute, func() {
			w.begin()
			defer w.end()
			if !w.setup() {
				return
			}
			tree := w.genTree(12)
			var hist []string
			for i := 0; i < nBackups; i++ {
				if tp.Choose(4) == 0 || dupMode && i == 0 {
					f := fault{Kind: "crash", At: 1 + tp.Choose(12)}
					if dupMode && i == 0 {
						f.At = 3 + tp.Choose(20) // far enough for several packs to be uploaded
					}
					w.backupFaulty(tree, f)
					w.recoverLocks("after crashed backup")
					hist = append(hist, "backup("+f.String()+")")
					if dupMode {
						// the same data again: what the crashed run uploaded becomes duplicate once it is indexed
						continue
					}
				} else {
					opts := BackupOptions{}
					if tp.Choose(3) == 0 {
						opts.Force = true
					}
					if !w.backupOK(tree, opts, fmt.Sprintf("backup %d", i)) {
						return
					}
					hist = append(hist, "backup")
				}
				tree = w.mutateTree(tree)
				if tp.Choose(3) == 0 {
					// a completely different tree: old data becomes unused once forgotten
					tree = w.genTree(10)
				}
			}
			w.postRun()
			if r.Failed() || len(w.snaps) == 0 {
				return
			}
			// which snapshots are forgotten
			ids := w.sortedSnaps()
			forget := map[string]bool{}
			var forgetIDs []string
			for _, id := range ids {
				if tp.Choose(2) == 0 {
					forget[id] = true
					forgetIDs = append(forgetIDs, id)
				}
			}
			popts, pdesc := w.genPruneOpts()
			if dupMode && tp.Choose(2) == 0 {
				// a prune that repacks every partly used pack, no faults: the duplicate handling decides
				popts = PruneOptions{MaxUnused: "0"}
				pdesc = "max-unused=0 (everything partly used is repacked)"
				if len(forgetIDs) == 0 && len(ids) > 1 {
					forget[ids[0]] = true
					forgetIDs = append(forgetIDs, ids[0])
				}
			}
			combined := tp.Choose(2) == 0 && len(forgetIDs) > 0
			stickySnapshotRemove := tp.Choose(4) == 0
			r.Set("history", fmt.Sprint(hist))
			r.Set("forget", len(forgetIDs))
			r.Set("prune_opts", pdesc)
			r.Set("combined_forget_prune", combined)
			if !combined && len(forgetIDs) > 0 {
				if err := w.cmdForget(w.newProc("forget"), forgetIDs, false, PruneOptions{MaxUnused: "5%"}); err != nil {
					r.Fail("fault-free-forget", "forget-failed", "fault-free forget failed: %v", err)
					return
				}
				w.dropGone(forget, "forget", "forget")
			}
			// optionally: `repair index` (orphaned packs of crashed backups become indexed duplicates), then one
			// pack file goes missing whose used blobs all have another indexed copy in another existing pack
			// (or which holds no used blob at all): the repository is still logically complete
			missingPack := ""
			if dupMode {
				var rerr error
				w.free(func() { rerr = w.cmdRepairIndex(w.newProc("repair-index"), false) })
				if rerr != nil {
					r.Fail("history", "repair-index-failed", "repair index failed: %v", rerr)
					return
				}
				hist = append(hist, "repair-index")
				view := model.View(w.key, w.store.Clone(), true)
				used := map[string]bool{}
				for _, sn := range view.Snapshots {
					// (also the snapshots to be forgotten: their removal may fail and then they must still restore)
					need, _ := view.Reachable(sn.Tree)
					for k := range need {
						used[k] = true
					}
				}
				cens := indexCensus(view)
				needed := map[string]bool{} // packs that hold the only existing copy of a used blob
				indexed := map[string]bool{}
				for k, es := range cens {
					packs := map[string]bool{}
					for _, e := range es {
						indexed[e.Pack] = true
						if view.Packs[e.Pack] != nil {
							packs[e.Pack] = true
						}
					}
					if used[k] && len(packs) == 1 {
						for pk := range packs {
							needed[pk] = true
						}
					}
				}
				var cands, dupCands []string
				for pk := range indexed {
					if !needed[pk] && view.Packs[pk] != nil {
						cands = append(cands, pk)
						for _, b := range view.Packs[pk].Blobs {
							if used[b.Key()] {
								dupCands = append(dupCands, pk) // holds a second copy of a used blob
								break
							}
						}
					}
				}
				sort.Strings(cands)
				sort.Strings(dupCands)
				if len(dupCands) > 0 && tp.Choose(3) != 0 {
					cands = dupCands
				}
				if len(cands) > 0 {
					r.Count("dup_mode_with_candidates", 1)
					missingPack = cands[tp.Choose(len(cands))]
					w.store.Del(backend.Handle{Type: backend.PackFile, Name: missingPack})
					hist = append(hist, "redundant-pack-"+missingPack[:8]+"-goes-missing")
					w.s.Count("fault:redundant-pack-deleted")
				}
				r.Count("dup_mode", 1)
				r.Set("history", fmt.Sprint(hist))
			}
			s0 := w.store.Clone()
			snaps0 := map[string]*snapModel{}
			for k, v := range w.snaps {
				snaps0[k] = v
			}
			points := 0
			for k := 1; ; k++ {
				if k > 1 {
					w.store.Restore(s0)
					w.snaps = map[string]*snapModel{}
					for id, v := range snaps0 {
						w.snaps[id] = v
					}
				}
				var f fault
				if sweep {
					f = fault{Kind: "crash", At: k}
				} else {
					f = w.genFault("cancel")
					if combined && stickySnapshotRemove {
						// one of the snapshots to forget cannot be removed, everything else works
						f = fault{Kind: "sticky", Op: "Remove", Type: backend.SnapshotFile, At: 1 + k%len(forgetIDs)}
					}
				}
				where := "prune [" + pdesc + "] with " + f.String()
				pr := w.newProc("prune")
				w.arm(pr, f)
				var err error
				if combined {
					err = w.cmdForget(pr, forgetIDs, true, popts)
				} else {
					err = w.cmdPrune(pr, popts)
				}
				w.disarm()
				w.postRun()
				points++
				crashed := pr.cl.Dead
				if crashed {
					r.Count("crashed", 1)
				}
				if err != nil && w.faultsFired() == 0 {
					r.Fail("prune-result", "failed-without-fault", "%s: failed without any injected fault: %v", where, err)
				}
				if err == nil {
					r.Count("prune_completed", 1)
				}
				w.recoverLocks(where)
				w.dropGone(forget, "remaining-snapshots", where)
				w.verifyAll("remaining-snapshots", where)
				if missingPack == "" || err == nil {
					w.checkClean("check", where)
				}
				if r.Failed() {
					break
				}
				if missingPack != "" && err != nil && w.faultsFired() <= 1 {
					// prune may refuse to work on an index that references a missing pack
					r.Count("prune_refused_missing_pack", 1)
				}
				// second prune on whatever state is left, to completion
				var err2 error
				w.free(func() {
					err2 = w.cmdPrune(w.newProc("prune2"), PruneOptions{MaxUnused: "0"})
				})
				if err2 != nil && missingPack != "" && strings.Contains(err2.Error(), "missing") {
					// restic picked the copy in the missing pack as the one to keep and refuses to prune: safe
					r.Count("second_prune_refused_missing_pack", 1)
					w.verifyAll("remaining-snapshots-2", where+", then a refused prune")
					break
				}
				if err2 != nil {
					r.Fail("liveness", "second-prune-failed", "%s: a second, fault-free prune failed: %v", where, err2)
					break
				}
				w.dropGone(forget, "remaining-snapshots-2", where+", then a full prune")
				w.verifyAll("remaining-snapshots-2", where+", then a full prune")
				w.checkClean("check-2", where+", then a full prune")
				if r.Failed() || !sweep || !crashed || k > 500 {
					break
				}
			}
			r.Count("crash_points", points)
		})
	})
}
