package main

import (
	"github.com/restic/restic/internal/backend"
	"fmt"
	"testing"
	"time"

	"github.com/restic/restic/internal/verif/hx"
	"github.com/restic/restic/internal/verif/simrt"
)

// TestVerifC09: prune never loses data still referenced by a remaining
// snapshot. Histories of complete and interrupted backups (which leave
// unreferenced, duplicate and unindexed packs behind), then forget + prune with
// generated options; the prune is crashed after its k-th applied mutation
// (sampled, or every k in sweep runs), cancelled, or given transient errors.
// After every stop: remaining snapshots restore equal, check --read-data is
// clean; then a second prune runs to completion and the oracle is repeated.
func TestVerifC09(t *testing.T) {
	hx.Main(t, "C09", func(r *hx.Rec) {
		tp := r.Tape
		cfg := genCfg(tp)
		w := newWorld(r, cfg)
		nBackups := tp.Range(2, 4)
		sweep := tp.Choose(5) == 4
		if sweep && hx.Tier() == "quick" && tp.Choose(3) != 0 {
			sweep = false
		}
		r.Set("cfg", cfg.String())
		r.Set("backups", nBackups)
		r.Set("sweep", sweep)
		simrt.Run(r.T, w.s, 15*time.Minute, func() {
			w.begin()
			defer w.end()
			if !w.setup() {
				return
			}
			tree := w.genTree(12)
			var hist []string
			for i := 0; i < nBackups; i++ {
				if tp.Choose(4) == 0 {
					f := fault{Kind: "crash", At: 1 + tp.Choose(12)}
					w.backupFaulty(tree, f)
					w.recoverLocks("after crashed backup")
					hist = append(hist, "backup("+f.String()+")")
				} else {
					opts := BackupOptions{}
					if tp.Choose(3) == 0 {
						opts.Force = true
					}
					if !w.backupOK(tree, opts, fmt.Sprintf("backup %d", i)) {
						return
					}
					hist = append(hist, "backup")
				}
				tree = w.mutateTree(tree)
				if tp.Choose(3) == 0 {
					// a completely different tree: old data becomes unused once forgotten
					tree = w.genTree(10)
				}
			}
			w.postRun()
			if r.Failed() || len(w.snaps) == 0 {
				return
			}
			// which snapshots are forgotten
			ids := w.sortedSnaps()
			forget := map[string]bool{}
			var forgetIDs []string
			for _, id := range ids {
				if tp.Choose(2) == 0 {
					forget[id] = true
					forgetIDs = append(forgetIDs, id)
				}
			}
			popts, pdesc := w.genPruneOpts()
			combined := tp.Choose(2) == 0 && len(forgetIDs) > 0
			stickySnapshotRemove := tp.Choose(4) == 0
			r.Set("history", fmt.Sprint(hist))
			r.Set("forget", len(forgetIDs))
			r.Set("prune_opts", pdesc)
			r.Set("combined_forget_prune", combined)
			if !combined && len(forgetIDs) > 0 {
				if err := w.cmdForget(w.newProc("forget"), forgetIDs, false, PruneOptions{MaxUnused: "5%"}); err != nil {
					r.Fail("fault-free-forget", "forget-failed", "fault-free forget failed: %v", err)
					return
				}
				w.dropGone(forget, "forget", "forget")
			}
			s0 := w.store.Clone()
			snaps0 := map[string]*snapModel{}
			for k, v := range w.snaps {
				snaps0[k] = v
			}
			points := 0
			for k := 1; ; k++ {
				if k > 1 {
					w.store.Restore(s0)
					w.snaps = map[string]*snapModel{}
					for id, v := range snaps0 {
						w.snaps[id] = v
					}
				}
				var f fault
				if sweep {
					f = fault{Kind: "crash", At: k}
				} else {
					f = w.genFault("cancel")
					if combined && stickySnapshotRemove {
						// one of the snapshots to forget cannot be removed, everything else works
						f = fault{Kind: "sticky", Op: "Remove", Type: backend.SnapshotFile, At: 1 + k%len(forgetIDs)}
					}
				}
				where := "prune [" + pdesc + "] with " + f.String()
				pr := w.newProc("prune")
				w.arm(pr, f)
				var err error
				if combined {
					err = w.cmdForget(pr, forgetIDs, true, popts)
				} else {
					err = w.cmdPrune(pr, popts)
				}
				w.disarm()
				w.postRun()
				points++
				crashed := pr.cl.Dead
				if crashed {
					r.Count("crashed", 1)
				}
				if err != nil && w.faultsFired() == 0 {
					r.Fail("prune-result", "failed-without-fault", "%s: failed without any injected fault: %v", where, err)
				}
				if err == nil {
					r.Count("prune_completed", 1)
				}
				w.recoverLocks(where)
				w.dropGone(forget, "remaining-snapshots", where)
				w.verifyAll("remaining-snapshots", where)
				w.checkClean("check", where)
				if r.Failed() {
					break
				}
				// second prune on whatever state is left, to completion
				var err2 error
				w.free(func() {
					err2 = w.cmdPrune(w.newProc("prune2"), PruneOptions{MaxUnused: "0"})
				})
				if err2 != nil {
					r.Fail("liveness", "second-prune-failed", "%s: a second, fault-free prune failed: %v", where, err2)
					break
				}
				w.dropGone(forget, "remaining-snapshots-2", where+", then a full prune")
				w.verifyAll("remaining-snapshots-2", where+", then a full prune")
				w.checkClean("check-2", where+", then a full prune")
				if r.Failed() || !sweep || !crashed || k > 500 {
					break
				}
			}
			r.Count("crash_points", points)
		})
	})
}
