package main

import (
	"sync"
	"bytes"
	"context"
	"fmt"
	"sort"
	"testing"
	"time"

	"github.com/restic/restic/internal/backend"
	"github.com/restic/restic/internal/global"
	"github.com/restic/restic/internal/repository"
	"github.com/restic/restic/internal/restic"
	"github.com/restic/restic/internal/ui"
	"github.com/restic/restic/internal/verif/hx"
	"github.com/restic/restic/internal/verif/simbe"
	"github.com/restic/restic/internal/verif/simrt"
)

// keyModel: key file name -> the password it was created with.
type keyModel map[string]string

func (w *world) keyNames() []string { return w.store.Names(backend.KeyFile) }

// tryOpen opens the repository with pw (and optional key hint) through the
// real OpenRepository path; returns the error and whether the master key
// equals the one the repository was initialised with.
func (w *world) tryOpen(pw, hint string) (error, bool) {
	pr := w.newProc("open")
	pr.gopts.Password = pw
	pr.gopts.KeyHint = hint // explicit: "" means no hint even in many-key repositories
	same := false
	err := pr.run(func(ctx context.Context, g global.Options, term ui.Terminal) error {
		repo, err := openRepo(ctx, g, term)
		if err != nil {
			return err
		}
		a, b := repo.Key(), w.key
		same = bytes.Equal(a.EncryptionKey[:], b.EncryptionKey[:]) && a.MACKey.K == b.MACKey.K && a.MACKey.R == b.MACKey.R
		return nil
	})
	return err, same
}

// judgeKeys compares which passwords open the repository with the model.
func (w *world) judgeKeys(km keyModel, universe []string, where string) {
	r := w.r
	if r.Failed() {
		return
	}
	present := w.keyNames()
	valid := map[string]bool{}
	for _, k := range present {
		if pw, ok := km[k]; ok {
			valid[pw] = true
		}
	}
	if len(valid) == 0 {
		r.Fail("working-key", "no-working-key", "%s: no key file with a known password is left (key files: %d)", where, len(present))
		return
	}
	w.free(func() {
		for _, pw := range universe {
			err, same := w.tryOpen(pw, "")
			if valid[pw] && err != nil && len(present) > 20 {
				// beyond 20 keys only a hinted key is guaranteed to be found
				continue
			}
			if valid[pw] && err != nil {
				r.Fail("opens", "valid-password-rejected", "%s: password %q belongs to a key file in the repository but does not open it: %v", where, pw, err)
				return
			}
			if !valid[pw] && err == nil {
				r.Fail("opens", "invalid-password-accepted", "%s: password %q opens the repository although no key file was created with it", where, pw)
				return
			}
			if err == nil && !same {
				r.Fail("master-key", "different-master-key", "%s: password %q yields a different master key", where, pw)
				return
			}
		}
		// with --key-hint: each key with its own password
		for _, k := range present {
			pw, ok := km[k]
			if !ok {
				continue
			}
			err, same := w.tryOpen(pw, k)
			if err != nil || !same {
				r.Fail("opens", "hinted-key-rejected", "%s: key %s with its password %q and --key-hint does not open the repository (same master key: %v): %v", where, k[:8], pw, same, err)
				return
			}
		}
	})
}

// TestVerifC29: histories of key add / passwd / remove with several passwords;
// the last operation is swept over every crash point, earlier ones may be
// crashed or get transient errors. At every point the set of passwords that
// open the repository (real OpenRepository/SearchKey, with and without
// --key-hint) must equal the model's set for the key files present.
func TestVerifC29(t *testing.T) {
	hx.Main(t, "C29", func(r *hx.Rec) {
		tp := r.Tape
		cfg := genCfg(tp)
		w := newWorld(r, cfg)
		nOps := tp.Range(1, 4)
		r.Set("cfg", cfg.String())
		simrt.Run(r.T, w.s, 15*time.Minute, func() {
			w.begin()
			defer w.end()
			if !w.setup() {
				return
			}
			km := keyModel{}
			for _, k := range w.keyNames() {
				km[k] = w.pw
			}
			universe := []string{w.pw, "wrong-password"}
			var hist []string
			npw := 0
			// sometimes a repository with more than 20 keys: then every key must still open when named with --key-hint
			if tp.Choose(6) == 0 {
				nMany := 20 + tp.Choose(6)
				// with more than 20 keys the user has to name the key
				w.keyHint = func() string {
					for _, k := range w.keyNames() {
						if km[k] == w.pw {
							return k
						}
					}
					return ""
				}
				var merr error
				w.free(func() {
					for i := 0; i < nMany && merr == nil; i++ {
						before := map[string]bool{}
						for _, k := range w.keyNames() {
							before[k] = true
						}
						pw := fmt.Sprintf("many-%d", i)
						merr = w.cmdKeyAdd(w.newProc("key-add-many"), pw)
						for _, k := range w.keyNames() {
							if !before[k] {
								km[k] = pw
							}
						}
						if i%5 == 0 {
							universe = append(universe, pw)
						}
					}
				})
				if merr != nil {
					r.Fail("op-result", "failed-without-fault", "adding key number >20 failed without a fault: %v", merr)
					return
				}
				hist = append(hist, fmt.Sprintf("%d extra keys", nMany))
				r.Count("runs_with_more_than_20_keys", 1)
			}
			type opdesc struct {
				kind string
				arg  string
			}
			// performs one key operation as a new process using the world's current password
			do := func(o opdesc, f fault) (error, *proc) {
				before := map[string]bool{}
				for _, k := range w.keyNames() {
					before[k] = true
				}
				pr := w.newProc("key-" + o.kind)
				w.arm(pr, f)
				var err error
				switch o.kind {
				case "add":
					err = w.cmdKeyAdd(pr, o.arg)
				case "passwd":
					err = w.cmdKeyPasswd(pr, o.arg)
				case "remove", "remove-current":
					err = w.cmdKeyRemove(pr, o.arg)
				}
				w.disarm()
				for _, k := range w.keyNames() {
					if !before[k] {
						km[k] = o.arg // a key file that became durable counts with the password it was created for
					}
				}
				return err, pr
			}
			currentKey := func() string {
				// the key file that the world's password opens (first in listing order)
				for _, k := range w.keyNames() {
					if km[k] == w.pw {
						return k
					}
				}
				return ""
			}
			genOp := func() opdesc {
				switch tp.Choose(5) {
				case 0, 1:
					npw++
					pw := fmt.Sprintf("pw-%d", npw)
					universe = append(universe, pw)
					return opdesc{"add", pw}
				case 2:
					npw++
					pw := fmt.Sprintf("pw-%d", npw)
					universe = append(universe, pw)
					return opdesc{"passwd", pw}
				case 3:
					// remove some key that is not the one in use
					var others []string
					cur := currentKey()
					for _, k := range w.keyNames() {
						if k != cur {
							others = append(others, k)
						}
					}
					if len(others) > 0 {
						return opdesc{"remove", others[tp.Choose(len(others))]}
					}
				case 4:
					return opdesc{"remove-current", currentKey()}
				}
				npw++
				pw := fmt.Sprintf("pw-%d", npw)
				universe = append(universe, pw)
				return opdesc{"add", pw}
			}
			afterOp := func(o opdesc, err error, pr *proc, f fault, where string) {
				interrupted := pr.cl.Dead || err != nil
				if o.kind == "passwd" {
					// the world switches to the new password once a key for it exists and the old one is gone or the op succeeded
					if err == nil && !pr.cl.Dead {
						w.pw = o.arg
					}
				}
				if o.kind == "remove-current" {
					if err == nil {
						r.Fail("remove-current", "current-key-removed", "%s: removing the key in use was not refused", where)
					}
					if w.store.Get(backend.Handle{Type: backend.KeyFile, Name: o.arg}) == nil {
						r.Fail("remove-current", "current-key-removed", "%s: the key in use was removed", where)
					}
				} else if err != nil && w.faultsFired() == 0 {
					r.Fail("op-result", "failed-without-fault", "%s: failed without any injected fault: %v", where, err)
				}
				if interrupted {
					w.recoverLocksWith(where)
				}
				// the world keeps a password that works: after an interrupted passwd either may be the one
				if o.kind == "passwd" && interrupted {
					okOld := false
					for _, k := range w.keyNames() {
						if km[k] == w.pw {
							okOld = true
						}
					}
					if !okOld {
						w.pw = o.arg
					}
				}
				w.judgeKeys(km, universe, where)
			}
			for i := 0; i < nOps-1 && !r.Failed(); i++ {
				o := genOp()
				f := w.genFault("")
				err, pr := do(o, f)
				w.postRun()
				hist = append(hist, fmt.Sprintf("%s[%s]", o.kind, f.String()))
				afterOp(o, err, pr, f, fmt.Sprintf("history %v", hist))
			}
			if r.Failed() {
				return
			}
			// last operation: swept over every crash point
			o := genOp()
			s0 := w.store.Clone()
			km0 := keyModel{}
			for k, v := range km {
				km0[k] = v
			}
			pw0 := w.pw
			points := 0
			for k := 1; k < 100 && !r.Failed(); k++ {
				if k > 1 {
					w.store.Restore(s0)
					km = keyModel{}
					for a, b := range km0 {
						km[a] = b
					}
					w.pw = pw0
				}
				f := fault{Kind: "crash", At: k}
				err, pr := do(o, f)
				w.postRun()
				points++
				where := fmt.Sprintf("history %v then %s with crash after mutation %d", hist, o.kind, k)
				if !pr.cl.Dead {
					where = fmt.Sprintf("history %v then %s (completed)", hist, o.kind)
				}
				afterOp(o, err, pr, f, where)
				if !pr.cl.Dead {
					break
				}
			}
			// two key holders remove each other's key at the same time: at least one key must survive
			if !r.Failed() && tp.Choose(3) == 0 {
				var pair []string
				for _, k := range w.keyNames() {
					if _, ok := km[k]; ok {
						pair = append(pair, k)
					}
				}
				if len(pair) >= 2 {
					ka, kb := pair[0], pair[len(pair)-1]
					var mu sync.Mutex
					errs := map[string]error{}
					for _, job := range [][2]string{{ka, kb}, {kb, ka}} {
						mine, victim := job[0], job[1]
						pr := w.newProc("key-remove-concurrent")
						pr.gopts.Password = km[mine]
						pr.gopts.KeyHint = mine
						delay := time.Duration(tp.Choose(3)) * 100 * time.Millisecond
						pr.start(func(ctx context.Context, g global.Options, term ui.Terminal) error {
							time.Sleep(delay)
							return runKeyRemove(ctx, g, []string{victim}, term)
						}, func(err error) {
							mu.Lock()
							errs[mine] = err
							mu.Unlock()
						})
					}
					w.s.Loop()
					w.postRun()
					w.s.Count("probe:concurrent-key-removes")
					where := fmt.Sprintf("history %v then the holders of keys %s and %s remove each other's key at the same time (results: %v, %v)", hist, ka[:8], kb[:8], errs[ka], errs[kb])
					for k := range km {
						if w.store.Get(backend.Handle{Type: backend.KeyFile, Name: k}) == nil {
							delete(km, k)
						}
					}
					if len(w.keyNames()) == 0 {
						r.Fail("working-key", "no-key-left", "%s: no key file is left in the repository", where)
					}
					// the world continues with a password that still works
					for _, k := range w.keyNames() {
						if pw, ok := km[k]; ok {
							w.pw = pw
						}
					}
					if !r.Failed() {
						w.recoverLocksWith(where)
						w.judgeKeys(km, universe, where)
					}
				}
			}
			// a key switch inside one process that fails when the config is loaded with the new key: the key
			// in use is still the old one, it keeps its protection and the other key stays removable
			if !r.Failed() && tp.Choose(2) == 0 {
				failFrom := tp.Choose(3) // which load of the config during the switch starts to fail for good
				pr := w.newProc("switch")
				_ = pr.run(func(ctx context.Context, g global.Options, term ui.Terminal) error {
					repo, err := openRepo(ctx, g, term)
					if err != nil {
						r.Count("switch_open_failed", 1)
						return nil
					}
					orig := repo.KeyID()
					npw++
					pwNew := fmt.Sprintf("pw-%d", npw)
					nk, err := repository.AddKey(ctx, repo, pwNew, "", "", repo.Key())
					if err != nil {
						r.Count("switch_addkey_failed", 1)
						return nil
					}
					km[nk.ID().String()] = pwNew
					universe = append(universe, pwNew)
					loads := 0
					pr.cl.Script = func(op string, h backend.Handle, _ int) *simbe.Forced {
						if op != "Load" || h.Type != backend.ConfigFile {
							return nil
						}
						loads++
						if loads > failFrom {
							w.s.Count("fault:config-load-fails-during-key-switch")
							return &simbe.Forced{Kind: "err-before"}
						}
						return nil
					}
					serr := repo.SearchKey(ctx, pwNew, 0, nk.ID().String())
					pr.cl.Script = nil
					where := fmt.Sprintf("history %v then a key switch in one process whose config load fails (switch error: %v)", hist, serr)
					inUse := orig
					other := nk.ID()
					if serr == nil {
						inUse, other = nk.ID(), orig
					}
					if repo.KeyID() != inUse {
						r.Fail("remove-current", "key-id-after-failed-switch", "%s: the repository handle names key %s as the one in use, it works with key %s", where, shortID(repo.KeyID()), shortID(inUse))
					}
					if rerr := repository.RemoveKey(ctx, repo, inUse); rerr == nil || w.store.Get(backend.Handle{Type: backend.KeyFile, Name: inUse.String()}) == nil {
						r.Fail("remove-current", "current-key-removed", "%s: removing the key in use (%s) was not refused", where, shortID(inUse))
					}
					if rerr := repository.RemoveKey(ctx, repo, other); rerr != nil {
						r.Fail("remove-other", "other-key-not-removable", "%s: removing key %s, which is not the one in use, was refused: %v", where, shortID(other), rerr)
					} else {
						delete(km, other.String())
						if serr == nil {
							w.pw = pwNew
						}
					}
					return nil
				})
				w.postRun()
				w.recoverLocksWith("after the in-process key switch")
				w.judgeKeys(km, universe, "after the in-process key switch")
			}
			r.Set("history", fmt.Sprint(append(hist, o.kind+"(swept)")))
			r.Count("crash_points", points)
			var ks []string
			for k := range km {
				ks = append(ks, k)
			}
			sort.Strings(ks)
			r.Count("keys_created", len(ks))
			r.Nontriv = true
		})
	})
}

// recoverLocksWith runs unlock with the world's current password.
func (w *world) recoverLocksWith(where string) {
	w.free(func() {
		pr := w.newProc("unlock")
		if err := w.cmdUnlock(pr); err != nil {
			// unlock needs a working password; a failure here is judged by judgeKeys
			w.r.Count("unlock_failed", 1)
		}
	})
}

func shortID(id restic.ID) string { return id.String()[:8] }
