package main

import (
	"bytes"
	"encoding/base64"
	"encoding/binary"
	"encoding/json"
	"fmt"
	"testing"

	"github.com/restic/restic/internal/backend"
	"github.com/restic/restic/internal/repository/crypto"
	"github.com/restic/restic/internal/verif/hx"
	"github.com/restic/restic/internal/verif/model"
	"github.com/restic/restic/internal/verif/simbe"
)

// secrecyMonitor inspects every Save that reaches the store, including files
// that are deleted again later: nonces must never repeat within the
// repository and no marker planted in file contents, file names or link
// targets may appear in any stored byte string.
type secrecyMonitor struct {
	w       *world
	key     *crypto.Key
	nonces  map[string]string // nonce -> where first seen
	pending []pendingFile     // files saved before the master key was known
	files   int
	nNonces int
	seen    map[string]string
}

type pendingFile struct {
	h    backend.Handle
	data []byte
}

func (w *world) newSecrecyMonitor() *secrecyMonitor {
	m := &secrecyMonitor{w: w, nonces: map[string]string{}}
	w.store.OnMutation = append(w.store.OnMutation, m.onMutation)
	w.keepMonitors = append(w.keepMonitors, m.onMutation)
	return m
}

func (m *secrecyMonitor) onMutation(mu simbe.Mutation, data []byte) {
	if mu.Op != "save" {
		return
	}
	cp := append([]byte(nil), data...)
	if m.key == nil {
		m.pending = append(m.pending, pendingFile{mu.H, cp})
		return
	}
	for _, p := range m.pending {
		m.inspect(p.h, p.data)
	}
	m.pending = nil
	m.inspect(mu.H, cp)
}

func (m *secrecyMonitor) finish() {
	for _, p := range m.pending {
		m.inspect(p.h, p.data)
	}
	m.pending = nil
	m.w.r.Count("files_inspected", m.files)
	m.w.r.Count("nonces_seen", m.nNonces)
}

func (m *secrecyMonitor) nonce(n []byte, where string) {
	if len(n) != 16 {
		return
	}
	m.nNonces++
	k := string(n)
	if first, ok := m.nonces[k]; ok {
		m.w.r.Fail("nonce", "nonce-reused", "nonce %x is used twice in one repository: by %s and by %s", n, first, where)
		return
	}
	m.nonces[k] = where
}

func (m *secrecyMonitor) inspect(h backend.Handle, data []byte) {
	// the same file saved again with identical bytes (a retried upload) is not a reuse
	id := h.Type.String() + "/" + h.Name
	sum := model.Hash(data)
	if m.seen == nil {
		m.seen = map[string]string{}
	}
	if m.seen[id] == sum {
		return
	}
	m.seen[id] = sum
	m.files++
	name := h.Type.String() + "/" + short8(h.Name)
	// plaintext markers
	for _, mk := range m.w.markerList {
		if bytes.Contains(data, mk) {
			if h.Type == backend.KeyFile {
				continue
			}
			m.w.r.Fail("plaintext", "marker-in-stored-bytes", "stored file %s contains the plaintext marker %q planted in the backed-up data", name, mk)
			return
		}
	}
	switch h.Type {
	case backend.PackFile:
		if len(data) < 4 {
			return
		}
		hlen := int(binary.LittleEndian.Uint32(data[len(data)-4:]))
		if hlen < 32 || hlen > len(data)-4 {
			return
		}
		m.nonce(data[len(data)-4-hlen:len(data)-4-hlen+16], name+" header")
		pc, err := model.DecodePack(m.key, h.Name, data, false)
		if err != nil {
			return
		}
		for _, b := range pc.Blobs {
			if int(b.Offset)+16 <= len(data) {
				m.nonce(data[b.Offset:b.Offset+16], fmt.Sprintf("%s blob %s", name, b.Key()[:13]))
			}
		}
	case backend.KeyFile:
		var k struct {
			Data string `json:"data"`
		}
		if json.Unmarshal(data, &k) == nil {
			if raw, err := base64.StdEncoding.DecodeString(k.Data); err == nil && len(raw) >= 16 {
				m.nonce(raw[:16], name)
			}
		}
	default:
		if len(data) >= 16 {
			m.nonce(data[:16], name)
		}
	}
}

func short8(s string) string {
	if len(s) > 8 {
		return s[:8]
	}
	return s
}

// TestVerifC04: repository contents leak no plaintext and never reuse a
// nonce. The monitor sees every file ever saved during generated histories
// (backups under all schedules, forget/prune with repacking, tag, rewrite, key
// operations, repair index, interrupted operations).
func TestVerifC04(t *testing.T) {
	hx.Main(t, "C04", func(r *hx.Rec) { runHistory(r, true) })
}
