package main

import (
	"fmt"
	"testing"
	"time"

	"github.com/restic/restic/internal/backend"
	"github.com/restic/restic/internal/verif/hx"
	"github.com/restic/restic/internal/verif/simbe"
	"github.com/restic/restic/internal/verif/simfs"
	"github.com/restic/restic/internal/verif/simrt"
)

// TestVerifC11: an interrupted or failed backup leaves the repository
// consistent. A history of 0-2 complete backups, then a target backup that is
// crashed after its k-th applied mutation (all k in sweep mode), cancelled at
// its k-th mutation, or given transient / permanent backend errors. After
// every stop the surviving store is judged by a fresh process.
func TestVerifC11(t *testing.T) {
	hx.Main(t, "C11", func(r *hx.Rec) {
		tp := r.Tape
		cfg := genCfg(tp)
		w := newWorld(r, cfg)
		// what happens to the target backup
		kind := []string{"crash", "crash", "cancel", "transient", "permanent", "sweep"}[tp.Choose(6)]
		if kind == "sweep" && hx.Tier() == "quick" && tp.Choose(4) != 0 {
			kind = "crash"
		}
		nPrior := tp.Range(0, 2)
		r.Set("cfg", cfg.String())
		r.Set("kind", kind)
		r.Set("prior_backups", nPrior)
		simrt.Run(r.T, w.s, 10*time.Minute, func() {
			w.begin()
			defer w.end()
			var setupErr error
			w.free(func() {
				if setupErr = w.cmdInit(w.newProc("init")); setupErr == nil {
					setupErr = w.fetchKey()
				}
			})
			if setupErr != nil {
				r.Abort = "setup: " + setupErr.Error()
				return
			}
			tree := w.genTree(14)
			for i := 0; i < nPrior; i++ {
				res := w.cmdBackup(w.newProc("backup"), tree, BackupOptions{})
				if res.Err != nil || res.NewID == "" {
					r.Fail("fault-free-backup", "backup-failed", "fault-free backup %d failed: %v (snapshot %q)", i, res.Err, res.NewID)
					return
				}
				w.snaps[res.NewID] = &snapModel{ID: res.NewID, Root: tree}
				tree = w.mutateTree(tree)
			}
			w.postRun()
			if r.Failed() {
				return
			}
			s0 := w.store.Clone()
			prior := map[string]*snapModel{}
			for k, v := range w.snaps {
				prior[k] = v
			}
			opts := BackupOptions{}
			if tp.Choose(3) == 0 {
				opts.Force = true
			}
			r.Set("tree_nodes", tree.Count())
			points := 0
			for k := 1; ; k++ {
				if k > 1 {
					w.store.Restore(s0)
					w.snaps = map[string]*snapModel{}
					for id, v := range prior {
						w.snaps[id] = v
					}
				}
				pr := w.newProc("target")
				where := kind
				switch kind {
				case "crash":
					pr.cl.CrashAt = 1 + tp.Choose(40)
					where = fmt.Sprintf("crash after mutation %d of the backup", pr.cl.CrashAt)
				case "sweep":
					pr.cl.CrashAt = k
					where = fmt.Sprintf("crash after mutation %d of the backup (sweep)", k)
				case "cancel":
					at := 1 + tp.Choose(40)
					n := 0
					w.store.OnMutation = append(w.store.OnMutation, func(m simbe.Mutation, _ []byte) {
						if m.Client == pr.cl {
							n++
							if n == at {
								w.s.Count("fault:cancel")
								pr.cancel()
							}
						}
					})
					where = fmt.Sprintf("context cancelled at mutation %d of the backup", at)
				case "transient":
					pr.cl.F = simbe.Faults{ErrBefore: 60, ErrAfter: 60, PartialRead: 40, ListFail: 40, Budget: 1 + tp.Choose(6), Delay: 50, MaxDelay: 20 * time.Minute}
					if !cfg.Atomic {
						pr.cl.F.Torn = 40
					}
				case "permanent":
					pr.cl.F = simbe.Faults{Full: 80, Budget: 1, OnlyTypes: map[backend.FileType]bool{backend.PackFile: true, backend.IndexFile: true, backend.SnapshotFile: true}}
				}
				res := w.cmdBackup(pr, tree, opts)
				w.store.OnMutation = nil
				w.postRun()
				crashed := pr.cl.Dead
				points++
				r.Count("target_backups", 1)
				if crashed {
					r.Count("crashed", 1)
				}
				faults := w.faultsFired()
				if res.Err == nil && res.NewID == "" && !crashed {
					r.Fail("backup-result", "success-without-snapshot", "%s: backup reported success but no snapshot file exists", where)
				}
				if res.Err != nil && faults == 0 {
					r.Fail("backup-result", "failed-without-fault", "%s: backup failed without any injected fault: %v", where, res.Err)
				}
				if res.NewID != "" {
					// acknowledged or not: a durable snapshot is held to the same standard
					w.snaps[res.NewID] = &snapModel{ID: res.NewID, Root: tree}
					r.Count("snapshot_durable", 1)
				}
				w.judge(where, tree)
				if r.Failed() || kind != "sweep" || !crashed || k > 400 {
					break
				}
			}
			r.Count("crash_points", points)
		})
	})
}

// judge evaluates the surviving store after an interrupted operation.
func (w *world) judge(where string, tree *simfs.Node) {
	r := w.r
	if r.Failed() {
		return
	}
	// a user would run `restic unlock` after a crashed process left its lock behind
	w.free(func() {
		if err := w.cmdUnlock(w.newProc("unlock")); err != nil {
			r.Fail("recovery", "unlock-failed", "%s: unlock failed: %v", where, err)
		}
	})
	w.snapshotsComplete("complete-snapshots", where)
	w.verifyAll("earlier-snapshots", where)
	w.checkClean("check", where)
	if r.Failed() {
		return
	}
	// bounded liveness: with faults over, a backup and a prune succeed
	var res backupResult
	w.free(func() {
		res = w.cmdBackup(w.newProc("after-backup"), tree, BackupOptions{})
	})
	if res.Err != nil || res.NewID == "" {
		r.Fail("liveness", "backup-after-failed", "%s: a fault-free backup afterwards failed: %v", where, res.Err)
		return
	}
	w.snaps[res.NewID] = &snapModel{ID: res.NewID, Root: tree}
	var perr error
	w.free(func() {
		perr = w.cmdPrune(w.newProc("after-prune"), PruneOptions{MaxUnused: "0"})
	})
	if perr != nil {
		r.Fail("liveness", "prune-after-failed", "%s: a fault-free prune afterwards failed: %v", where, perr)
		return
	}
	w.verifyAll("after-prune", where+", then backup and prune")
	w.checkClean("check-after-prune", where+", then backup and prune")
}
