package main

import (
	"sort"
	"bytes"
	"context"
	"fmt"
	"os"
	"path/filepath"
	"testing"
	"time"

	"github.com/restic/restic/internal/data"
	"github.com/restic/restic/internal/global"
	"github.com/restic/restic/internal/restic"
	"github.com/restic/restic/internal/restorer"
	"github.com/restic/restic/internal/ui"
	restoreui "github.com/restic/restic/internal/ui/restore"
	"github.com/restic/restic/internal/verif/hk"
	"github.com/restic/restic/internal/verif/hx"
	"github.com/restic/restic/internal/verif/simbe"
	"github.com/restic/restic/internal/verif/simfs"
	"github.com/restic/restic/internal/verif/simrt"
)

// genRestoreTree: regular files whose contents exercise the restorer: empty,
// short, all zeros, zeros with islands of data (holes), multi-chunk, shared blobs.
func (w *world) genRestoreTree() *simfs.Node {
	tp := w.tp
	root := w.newDir("src")
	n := tp.Range(1, 8)
	var prev []byte
	for i := 0; i < n; i++ {
		var d []byte
		switch tp.Choose(7) {
		case 0:
			d = []byte{}
		case 1:
			d = hk.Content(w.st, 1+tp.Choose(300), 0)
		case 2:
			d = make([]byte, []int{4096, 70000, 600000}[tp.Choose(3)])
		case 3:
			d = make([]byte, 200000)
			copy(d[50000:], hk.Content(w.st, 3000, 0))
			copy(d[199000:], hk.Content(w.st, 1000, 0))
		case 4:
			d = hk.Content(w.st, 700000+tp.Choose(500000), tp.Choose(3))
		case 5:
			if prev != nil {
				d = prev
				break
			}
			fallthrough
		default:
			d = hk.Content(w.st, 5000+tp.Choose(60000), tp.Choose(3))
		}
		prev = d
		f := w.newFile(fmt.Sprintf("f%d", i), 0, 0)
		f.Data = d
		if tp.Choose(4) == 0 {
			sub := root.Kid("sub")
			if sub == nil {
				sub = w.newDir("sub")
				root.Add(sub)
			}
			sub.Add(f)
		} else {
			root.Add(f)
		}
	}
	return root
}

type preState struct {
	kind string
	data []byte
	// existing file newer than the snapshot's mtime?
	newer bool
}

// TestVerifC19: restore onto existing targets. The real runRestore (scheduled
// pack downloads, optionally transient errors) into a directory that already
// holds, per file, nothing / a shorter / longer / different / identical file /
// a file hard-linked elsewhere / a symlink or an (empty) directory in the way,
// for all overwrite modes and sparse on/off.
func TestVerifC19(t *testing.T) {
	hx.Main(t, "C19", func(r *hx.Rec) {
		tp := r.Tape
		cfg := genCfg(tp)
		w := newWorld(r, cfg)
		mode := []restorer.OverwriteBehavior{restorer.OverwriteAlways, restorer.OverwriteIfChanged, restorer.OverwriteIfNewer, restorer.OverwriteNever}[tp.Choose(4)]
		sparse := tp.Choose(2) == 0
		faulty := tp.Choose(4) == 0
		r.Set("cfg", cfg.String())
		r.Set("overwrite", mode.String())
		r.Set("sparse", sparse)
		simrt.Run(r.T, w.s, 15*time.Minute, func() {
			w.begin()
			defer w.end()
			if !w.setup() {
				return
			}
			tree := w.genRestoreTree()
			ok := false
			w.free(func() { ok = w.backupOK(tree, BackupOptions{}, "backup") })
			if !ok {
				return
			}
			sid := w.sortedSnaps()[0]
			dir, err := os.MkdirTemp("", "verif-c19-")
			if err != nil {
				r.Abort = err.Error()
				return
			}
			defer os.RemoveAll(dir)
			target := filepath.Join(dir, "out")
			outside := filepath.Join(dir, "outside")
			_ = os.MkdirAll(filepath.Join(target, "src", "sub"), 0o755)
			_ = os.MkdirAll(outside, 0o755)
			// pre-existing states
			pre := map[string]preState{}
			var desc []string
			var files []*simfs.Node
			var dirs []*simfs.Node
			collect(tree, &dirs, &files)
			paths := map[*simfs.Node]string{}
			var walk func(n *simfs.Node, p string)
			walk = func(n *simfs.Node, p string) {
				for _, k := range n.Kids {
					kp := filepath.Join(p, k.Name)
					paths[k] = kp
					if k.IsDir() {
						walk(k, kp)
					}
				}
			}
			walk(tree, filepath.Join(target, "src"))
			for _, f := range files {
				p := paths[f]
				st := preState{kind: []string{"missing", "shorter", "longer", "different", "identical", "hardlinked", "symlink", "dir"}[tp.Choose(8)]}
				switch st.kind {
				case "shorter":
					if len(f.Data) < 2 {
						st.kind = "missing"
						break
					}
					st.data = append([]byte(nil), f.Data[:len(f.Data)/2]...)
				case "longer":
					st.data = append(append([]byte(nil), f.Data...), []byte("extra tail")...)
				case "different":
					st.data = hk.Content(w.st, len(f.Data), 0)
					if len(st.data) > 0 {
						st.data[0] ^= 1
					} else {
						st.data = []byte("x")
					}
				case "identical", "hardlinked":
					st.data = append([]byte(nil), f.Data...)
				}
				// any of the regular-file states may have a second hard link outside the target
				linked := st.kind == "hardlinked"
				if (st.kind == "shorter" || st.kind == "longer" || st.kind == "different") && tp.Choose(3) == 2 {
					linked = true
					if st.kind == "different" && len(st.data) > 1 && tp.Choose(2) == 1 {
						// differs only at the very end
						st.data = append([]byte(nil), f.Data...)
						st.data[len(st.data)-1] ^= 1
					}
				}
				switch st.kind {
				case "missing":
				case "symlink":
					victim := filepath.Join(outside, "victim-"+f.Name)
					_ = os.WriteFile(victim, []byte("do not touch"), 0o644)
					_ = os.Symlink(victim, p)
				case "dir":
					_ = os.Mkdir(p, 0o755)
				default:
					if linked {
						other := filepath.Join(outside, "link-"+f.Name)
						_ = os.WriteFile(other, st.data, 0o644)
						_ = os.Link(other, p)
						if st.kind != "hardlinked" {
							st.kind += "+hardlinked"
						}
					} else {
						_ = os.WriteFile(p, st.data, 0o644)
					}
				}
				if st.kind != "missing" && st.kind != "symlink" && st.kind != "dir" {
					// older or newer than the snapshot's mtime
					st.newer = tp.Choose(2) == 0
					mt := f.MTime.Add(-time.Hour)
					if st.newer {
						mt = f.MTime.Add(time.Hour)
					}
					_ = os.Chtimes(p, mt, mt)
				}
				pre[p] = st
				desc = append(desc, fmt.Sprintf("%s:%s(newer=%v)", f.Name, st.kind, st.newer))
			}
			r.Set("target_states", fmt.Sprint(desc))
			r.CaseKey = cfg.String() + mode.String() + fmt.Sprint(sparse, desc)
			pr := w.newProc("restore")
			if faulty {
				pr.cl.F = simbe.Faults{ErrBefore: 50, PartialRead: 50, Budget: 3}
			}
			rerr := pr.run(func(ctx context.Context, g global.Options, term ui.Terminal) error {
				return runRestore(ctx, RestoreOptions{Target: target, Overwrite: mode, Sparse: sparse}, g, term, []string{sid})
			})
			w.postRun()
			where := fmt.Sprintf("overwrite=%s sparse=%v states %v", mode.String(), sparse, desc)
			if rerr != nil {
				r.Count("restore_failed", 1)
				// an unsuccessful restore promises nothing; without obstacles and faults it must not fail
				obstacles := false
				for _, st := range pre {
					if st.kind == "dir" || st.kind == "symlink" {
						obstacles = true
					}
				}
				if !obstacles && w.faultsFired() == 0 {
					r.Fail("restore", "restore-failed", "%s: restore failed without an obstacle or fault: %v\n%s", where, rerr, firstLines(pr.term.Err(), 6))
				}
				return
			}
			for _, f := range files {
				p := paths[f]
				st := pre[p]
				fi, err := os.Lstat(p)
				untouched := false
				switch mode {
				case restorer.OverwriteNever:
					untouched = st.kind != "missing"
				case restorer.OverwriteIfNewer:
					// overwritten only if the snapshot's file is newer than the existing one
					untouched = st.kind != "missing" && st.kind != "symlink" && st.kind != "dir" && st.newer
				}
				if st.kind == "symlink" || st.kind == "dir" {
					if mode == restorer.OverwriteNever {
						continue
					}
					if mode == restorer.OverwriteIfNewer {
						continue // depends on the obstacle's own mtime, which is "now"
					}
				}
				if untouched {
					got, rerr := os.ReadFile(p)
					if rerr != nil || !bytes.Equal(got, st.data) {
						r.Fail("left-untouched", "existing-file-modified", "%s: %s existed (%s) and must be left untouched with --overwrite %s but was changed (%d bytes now, %d before, err %v)", where, f.Name, st.kind, mode.String(), len(got), len(st.data), rerr)
					}
					continue
				}
				if err != nil || !fi.Mode().IsRegular() {
					r.Fail("content", "not-a-regular-file", "%s: %s is not a regular file after a successful restore (%v)", where, f.Name, err)
					continue
				}
				got, rerr := os.ReadFile(p)
				if rerr != nil || !bytes.Equal(got, f.Data) {
					r.Fail("content", "wrong-content", "%s: %s (was: %s) has %d bytes after a successful restore, the snapshot has %d; first difference at %d (err %v)", where, f.Name, st.kind, len(got), len(f.Data), firstDiffBytes(got, f.Data), rerr)
				}
				if st.kind == "symlink" {
					v, _ := os.ReadFile(filepath.Join(outside, "victim-"+f.Name))
					if string(v) != "do not touch" {
						r.Fail("content", "wrote-through-symlink", "%s: restoring %s wrote through the symlink that was in the way", where, f.Name)
					}
				}
			}
		})
	})
}

func firstDiffBytes(a, b []byte) int {
	for i := 0; i < len(a) && i < len(b); i++ {
		if a[i] != b[i] {
			return i
		}
	}
	if len(a) < len(b) {
		return len(a)
	}
	return len(b)
}

// TestVerifC21: restore --verify reports exactly the files that differ. The
// real restorer restores a generated snapshot (scheduled downloads), then the
// restored files are damaged at rest (one byte changed at a generated
// position, truncation, extension, or nothing) and the real VerifyFiles of the
// same restorer must succeed iff nothing was changed; optionally with load
// errors during the verification.
func TestVerifC21(t *testing.T) {
	hx.Main(t, "C21", func(r *hx.Rec) {
		tp := r.Tape
		cfg := genCfg(tp)
		w := newWorld(r, cfg)
		sparse := tp.Choose(2) == 0
		nDamage := []int{0, 1, 1, 1, 2}[tp.Choose(5)]
		vmode := []restorer.OverwriteBehavior{restorer.OverwriteAlways, restorer.OverwriteIfChanged, restorer.OverwriteIfNewer, restorer.OverwriteNever}[tp.Choose(4)]
		keepMtime := tp.Choose(2) == 0 // the damage leaves the file's modification time as restored
		shrinkDuringVerify := tp.Choose(4) == 0
		r.Set("cfg", cfg.String())
		simrt.Run(r.T, w.s, 15*time.Minute, func() {
			w.begin()
			defer w.end()
			if !w.setup() {
				return
			}
			tree := w.genRestoreTree()
			ok := false
			w.free(func() { ok = w.backupOK(tree, BackupOptions{}, "backup") })
			if !ok {
				return
			}
			sid := w.sortedSnaps()[0]
			dir, err := os.MkdirTemp("", "verif-c21-")
			if err != nil {
				r.Abort = err.Error()
				return
			}
			defer os.RemoveAll(dir)
			target := filepath.Join(dir, "out")
			var files []*simfs.Node
			var dirs []*simfs.Node
			collect(tree, &dirs, &files)
			paths := map[*simfs.Node]string{}
			var walk func(n *simfs.Node, p string)
			walk = func(n *simfs.Node, p string) {
				for _, k := range n.Kids {
					kp := filepath.Join(p, k.Name)
					paths[k] = kp
					if k.IsDir() {
						walk(k, kp)
					}
				}
			}
			walk(tree, filepath.Join(target, "src"))
			var desc []string
			pr := w.newProc("restore-verify")
			var verr error
			var rerr error
			nchecked := 0
			_ = pr.run(func(ctx context.Context, g global.Options, term ui.Terminal) error {
				repo, err := openRepo(ctx, g, term)
				if err != nil {
					rerr = err
					return nil
				}
				if err := repo.LoadIndex(ctx, restic.NoopTerminalCounterFactory); err != nil {
					rerr = err
					return nil
				}
				id, _ := restic.ParseID(sid)
				sn, err := data.LoadSnapshot(ctx, repo, id)
				if err != nil {
					rerr = err
					return nil
				}
				printer := restoreui.NewTextProgress(term, 0)
				progress := restoreui.NewProgress(printer, true, false, false)
				shrink := &c21ShrinkRepo{Repository: repo}
				res := restorer.NewRestorer(shrink, sn, restorer.Options{Sparse: sparse, Progress: progress, Overwrite: vmode})
				count, err := res.RestoreTo(ctx, target)
				if err != nil {
					rerr = err
					progress.Finish()
					return nil
				}
				// damage at rest, between two scheduling points
				for d := 0; d < nDamage && len(files) > 0; d++ {
					f := files[tp.Choose(len(files))]
					p := paths[f]
					cur, err := os.ReadFile(p)
					if err != nil {
						continue
					}
					_ = os.Chmod(p, 0o644)
					fi0, _ := os.Lstat(p)
					switch k := tp.Choose(3); {
					case k == 0 && len(cur) > 0:
						pos := tp.Choose(len(cur))
						cur[pos] ^= byte(1 << tp.Choose(8))
						_ = os.WriteFile(p, cur, 0o644)
						desc = append(desc, fmt.Sprintf("%s: byte %d of %d changed", f.Name, pos, len(cur)))
					case k == 1 && len(cur) > 0:
						cut := tp.Choose(len(cur))
						_ = os.WriteFile(p, cur[:cut], 0o644)
						desc = append(desc, fmt.Sprintf("%s: truncated to %d of %d", f.Name, cut, len(cur)))
					default:
						_ = os.WriteFile(p, append(cur, byte(tp.Choose(256))), 0o644)
						desc = append(desc, fmt.Sprintf("%s: one byte appended to %d", f.Name, len(cur)))
					}
					if keepMtime && fi0 != nil {
						_ = os.Chtimes(p, fi0.ModTime(), fi0.ModTime())
					}
					w.s.Count("fault:restored-file-damaged")
				}
				if shrinkDuringVerify && len(files) > 0 {
					// a file shrinks while it is being verified: at the lookup of a blob that only this file
					// contains, it is cut in the middle of that blob
					uses := map[string]int{}
					type loc struct {
						f   *simfs.Node
						off int64
						ln  int
					}
					where := map[string]loc{}
					byPath := map[string]*simfs.Node{}
					for _, f := range files {
						byPath[paths[f]] = f
					}
					var walkTree func(id restic.ID, dir string)
					walkTree = func(id restic.ID, dir string) {
						tr, err := data.LoadTree(ctx, repo, id)
						if err != nil {
							return
						}
						for item := range tr {
							if item.Error != nil || item.Node == nil {
								return
							}
							n := item.Node
							p := filepath.Join(dir, n.Name)
							switch n.Type {
							case data.NodeTypeDir:
								if n.Subtree != nil {
									walkTree(*n.Subtree, p)
								}
							case data.NodeTypeFile:
								f := byPath[p]
								if f == nil {
									continue
								}
								off := int64(0)
								for _, bid := range n.Content {
									ln, ok := repo.LookupBlobSize(restic.BlobHandle{ID: bid, Type: restic.DataBlob})
									if !ok {
										return
									}
									uses[bid.String()]++
									where[bid.String()] = loc{f, off, int(ln)}
									off += int64(ln)
								}
							}
						}
					}
					if sn.Tree != nil {
						walkTree(*sn.Tree, target)
					}
					var cands []string
					for id, n := range uses {
						if n == 1 && where[id].ln > 1 {
							cands = append(cands, id)
						}
					}
					sort.Strings(cands)
					if len(cands) > 0 {
						id := cands[tp.Choose(len(cands))]
						l := where[id]
						shrink.trigger, _ = restic.ParseID(id)
						shrink.path = paths[l.f]
						shrink.cutAt = l.off + int64(l.ln/2)
						shrink.armed = true
						desc = append(desc, fmt.Sprintf("%s: cut to %d bytes while it is being verified", l.f.Name, shrink.cutAt))
						w.s.Count("fault:file-shrinks-during-verify")
					}
				}
				nchecked, verr = res.VerifyFiles(ctx, target, count, restic.NoopCounter)
				if shrink.armed && !shrink.fired {
					r.Count("shrink_not_triggered", 1)
				}
				progress.Finish()
				return nil
			})
			w.postRun()
			if rerr != nil {
				r.Fail("restore", "restore-failed", "restore into an empty directory failed: %v", rerr)
				return
			}
			r.Set("damage", fmt.Sprint(desc))
			r.CaseKey = cfg.String() + fmt.Sprint(sparse, desc, vmode, keepMtime)
			r.Set("overwrite", vmode.String())
			r.Set("damage_keeps_mtime", keepMtime)
			// ground truth: does any restored file differ now?
			differs := ""
			for _, f := range files {
				got, err := os.ReadFile(paths[f])
				if err != nil || !bytes.Equal(got, f.Data) {
					differs = f.Name
				}
			}
			if differs != "" && verr == nil {
				r.Fail("verify", "difference-not-reported", "damage %v: file %s differs from the snapshot but verification succeeded (%d files checked)", desc, differs, nchecked)
			}
			if differs == "" && verr != nil {
				r.Fail("verify", "false-report", "damage %v: no restored file differs from the snapshot but verification failed: %v", desc, verr)
			}
			r.Count("files_verified", nchecked)
		})
	})
}

// c21ShrinkRepo truncates one restored file at the moment the verification looks up the size of one
// particular blob of it (between the file's stat and the read of that blob).
type c21ShrinkRepo struct {
	restic.Repository
	armed   bool
	trigger restic.ID
	path    string
	cutAt   int64
	fired   bool
}

func (c *c21ShrinkRepo) LookupBlobSize(bh restic.BlobHandle) (uint, bool) {
	if c.armed && !c.fired && bh.Type == restic.DataBlob && bh.ID == c.trigger {
		c.fired = true
		_ = os.Chmod(c.path, 0o644)
		_ = os.Truncate(c.path, c.cutAt)
	}
	return c.Repository.LookupBlobSize(bh)
}
