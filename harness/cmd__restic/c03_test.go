package main

import (
	"github.com/restic/restic/internal/verif/simbe"
	"context"
	"fmt"
	"sort"
	"strings"
	"testing"
	"time"

	"github.com/restic/restic/internal/backend"
	"github.com/restic/restic/internal/global"
	"github.com/restic/restic/internal/restic"
	"github.com/restic/restic/internal/ui"
	"github.com/restic/restic/internal/verif/hx"
	"github.com/restic/restic/internal/verif/model"
	"github.com/restic/restic/internal/verif/simrt"
)

// TestVerifC03: any corruption of repository data is reported, never silently
// used. Small generated repositories; one to three at-rest damages out of
// delete / truncate / extend / single-bit flip at positions stratified over
// nonce, ciphertext and MAC of blobs, pack header and length field, and of the
// unpacked files. The independent decoder (intact bytes only) decides whether
// a snapshot depends on what was damaged; then real `check --read-data` must
// report an error, and reading every snapshot through the real read path
// either fails or yields the original content.
func TestVerifC03(t *testing.T) {
	hx.Main(t, "C03", func(r *hx.Rec) {
		tp := r.Tape
		cfg := genCfg(tp)
		w := newWorld(r, cfg)
		nBackups := tp.Range(1, 3)
		nDamage := []int{0, 1, 1, 1, 2, 3}[tp.Choose(6)] // 0: nothing is damaged at rest, a pack may vanish while check runs
		r.Set("cfg", cfg.String())
		simrt.Run(r.T, w.s, 15*time.Minute, func() {
			w.begin()
			defer w.end()
			if !w.setup() {
				return
			}
			tree := w.genTree(10)
			ok := true
			w.free(func() {
				for i := 0; i < nBackups && ok; i++ {
					ok = w.backupOK(tree, BackupOptions{}, fmt.Sprintf("backup %d", i))
					tree = w.mutateTree(tree)
				}
			})
			if !ok {
				return
			}
			before := model.View(w.key, w.store.Clone(), true)
			// candidates: every stored file except locks
			var hs []backend.Handle
			for h := range w.store.Clone() {
				if h.Type != backend.LockFile {
					hs = append(hs, h)
				}
			}
			sort.Slice(hs, func(i, j int) bool {
				if hs[i].Type != hs[j].Type {
					return hs[i].Type < hs[j].Type
				}
				return hs[i].Name < hs[j].Name
			})
			var desc []string
			damagedKeys := 0
			nKeys := len(w.store.Names(backend.KeyFile))
			for d := 0; d < nDamage; d++ {
				// bias towards packs and indexes
				var h backend.Handle
				for try := 0; try < 4; try++ {
					h = hs[tp.Choose(len(hs))]
					if h.Type == backend.PackFile || h.Type == backend.IndexFile || h.Type == backend.SnapshotFile {
						break
					}
				}
				data := w.store.Get(h)
				if data == nil {
					continue
				}
				if h.Type == backend.KeyFile {
					damagedKeys++
				}
				kind := tp.Choose(6)
				switch {
				case kind == 0:
					w.store.Del(h)
					desc = append(desc, fmt.Sprintf("delete %s/%s", h.Type, short8(h.Name)))
					w.s.Count("fault:file-deleted")
				case kind == 1 && len(data) > 1:
					cut := tp.Choose(len(data))
					w.store.Put(h, append([]byte(nil), data[:cut]...))
					desc = append(desc, fmt.Sprintf("truncate %s/%s to %d of %d", h.Type, short8(h.Name), cut, len(data)))
					w.s.Count("fault:file-truncated")
				case kind == 2:
					ext := append(append([]byte(nil), data...), make([]byte, 1+tp.Choose(40))...)
					w.store.Put(h, ext)
					desc = append(desc, fmt.Sprintf("extend %s/%s by %d", h.Type, short8(h.Name), len(ext)-len(data)))
					w.s.Count("fault:file-extended")
				default:
					if len(data) == 0 {
						continue
					}
					pos := tp.Choose(len(data))
					region := "anywhere"
					if h.Type == backend.PackFile && before.Packs[h.Name] != nil && len(before.Packs[h.Name].Blobs) > 0 {
						pc := before.Packs[h.Name]
						b := pc.Blobs[tp.Choose(len(pc.Blobs))]
						switch tp.Choose(5) {
						case 0:
							pos, region = int(b.Offset)+tp.Choose(16), "blob nonce"
						case 1:
							if b.Length > 32 {
								pos, region = int(b.Offset)+16+tp.Choose(int(b.Length)-32), "blob ciphertext"
							}
						case 2:
							pos, region = int(b.Offset+b.Length)-1-tp.Choose(16), "blob MAC"
						case 3:
							pos, region = len(data)-pc.HeaderLen+tp.Choose(pc.HeaderLen-4), "pack header"
						case 4:
							pos, region = len(data)-1-tp.Choose(4), "header length field"
						}
					} else if h.Type != backend.KeyFile && h.Type != backend.PackFile && len(data) > 32 {
						switch tp.Choose(3) {
						case 0:
							pos, region = tp.Choose(16), "nonce"
						case 1:
							pos, region = 16+tp.Choose(len(data)-32), "ciphertext"
						case 2:
							pos, region = len(data)-1-tp.Choose(16), "MAC"
						}
					}
					if pos < 0 || pos >= len(data) {
						// the file was already shortened by an earlier damage
						pos, region = tp.Choose(len(data)), "anywhere"
					}
					nd := append([]byte(nil), data...)
					nd[pos] ^= byte(1 << tp.Choose(8))
					w.store.Put(h, nd)
					desc = append(desc, fmt.Sprintf("flip a bit of %s/%s at %d (%s)", h.Type, short8(h.Name), pos, region))
					w.s.Count("fault:bit-flipped")
				}
			}
			r.Set("damage", fmt.Sprint(desc))
			r.CaseKey = cfg.String() + fmt.Sprint(desc)
			where := fmt.Sprint(desc)
			// is an error due? judged from the intact remainder by the independent decoder
			after := model.View(w.key, w.store.Clone(), true)
			due := ""
			var sids []string
			for id := range before.Snapshots {
				sids = append(sids, id)
			}
			sort.Strings(sids)
			for _, id := range sids {
				sn := after.Snapshots[id]
				if sn == nil {
					if _, bad := after.SnapErr[id]; bad {
						due = fmt.Sprintf("snapshot file %s is present but no longer decodable", id[:8])
					}
					continue // a deleted snapshot leaves nothing that refers to it
				}
				if _, missing := after.Reachable(sn.Tree); len(missing) > 0 {
					due = fmt.Sprintf("snapshot %s is no longer fully restorable from the intact bytes (%d blobs, first %s)", id[:8], len(missing), missing[0])
					break
				}
			}
			for id, e := range after.IndexErr {
				if due == "" {
					due = fmt.Sprintf("index file %s is damaged (%s)", id[:8], e)
				}
			}
			// real check
			var sum checkSummary
			var cerr error
			var errOut string
			// optionally a needed pack file vanishes while check is running (after its n-th download)
			vanishPack, vanishAfter, loadsSeen, missedLoad := "", 0, 0, false
			if due == "" && (nDamage == 0 || tp.Choose(3) == 0) {
				var cands []string
				needed := map[string]bool{}
				for _, id := range sids {
					if sn := after.Snapshots[id]; sn != nil {
						need, _ := after.Reachable(sn.Tree)
						for k := range need {
							for _, e := range after.Indexed[k] {
								needed[e.Pack] = true
							}
						}
					}
				}
				for pk := range needed {
					if after.Packs[pk] != nil {
						cands = append(cands, pk)
					}
				}
				sort.Strings(cands)
				if len(cands) > 0 {
					vanishPack = cands[tp.Choose(len(cands))]
					vanishAfter = tp.Choose(12)
				}
			}
			checkProc := w.newProc("check")
			if vanishPack != "" {
				w.store.OnArrive = append(w.store.OnArrive, func(c *simbe.Client, op string, h backend.Handle) {
					if c != checkProc.cl || op != "Load" {
						return
					}
					if loadsSeen == vanishAfter && w.store.Get(backend.Handle{Type: backend.PackFile, Name: vanishPack}) != nil {
						w.store.Del(backend.Handle{Type: backend.PackFile, Name: vanishPack})
						w.s.Count("fault:pack-vanished-during-check")
					}
					loadsSeen++
					if h.Type == backend.PackFile && h.Name == vanishPack && w.store.Get(h) == nil {
						missedLoad = true
					}
				})
			}
			w.free(func() {
				sum, cerr, errOut = w.cmdCheck(checkProc, true)
			})
			w.store.OnArrive = nil
			reported := cerr != nil || sum.NumErrors > 0
			if missedLoad && !reported {
				r.Fail("reported", "vanished-pack-not-reported", "pack %s, needed by a snapshot, vanished while check --read-data was running and check then failed to download it, but it reports no error", vanishPack[:8])
			}
			if vanishPack != "" {
				where += fmt.Sprintf(" pack %s vanished during check (after download %d)", vanishPack[:8], vanishAfter)
				if missedLoad {
					r.Count("check_tried_to_read_the_vanished_pack", 1)
				}
				return
			}
			if due != "" && !reported {
				r.Fail("reported", "damage-not-reported", "damage %s: %s, but check --read-data reports no error", where, due)
			}
			if due != "" {
				r.Count("error_due", 1)
			}
			if reported {
				r.Count("check_reported_error", 1)
			}
			_ = errOut
			// reading every snapshot: the original content or a failure, never other content
			if damagedKeys >= nKeys && nKeys > 0 {
				return
			}
			w.free(func() {
				pr := w.newProc("read")
				_ = pr.run(func(ctx context.Context, g global.Options, term ui.Terminal) error {
					repo, err := openRepo(ctx, g, term)
					if err != nil {
						return nil // cannot open: a failure, which is acceptable
					}
					if err := repo.LoadIndex(ctx, restic.NoopTerminalCounterFactory); err != nil {
						return nil
					}
					for _, id := range sids {
						m := w.snaps[id]
						if m == nil || w.store.Get(backend.Handle{Type: backend.SnapshotFile, Name: id}) == nil {
							continue
						}
						d := verifySnapshot(ctx, repo, id, m.Root)
						if d == "" {
							r.Count("snapshots_read_back_equal", 1)
							continue
						}
						if strings.HasPrefix(d, "LOADERR:") {
							r.Count("snapshots_failed_to_read", 1)
							continue
						}
						r.Fail("never-wrong-data", "different-content-returned", "damage %s: reading snapshot %s returned different content instead of failing: %s", where, id[:8], d)
					}
					return nil
				})
			})
			w.postRun()
		})
	})
}
