package main

import (
	"github.com/restic/restic/internal/verif/simfs"
	"context"
	"encoding/json"
	"fmt"
	"sort"
	"strings"
	"testing"
	"time"

	"github.com/restic/restic/internal/backend"
	"github.com/restic/restic/internal/global"
	"github.com/restic/restic/internal/repository"
	"github.com/restic/restic/internal/ui"
	"github.com/restic/restic/internal/verif/hx"
	"github.com/restic/restic/internal/verif/model"
	"github.com/restic/restic/internal/verif/simrt"
)

type entryKey struct {
	key, pack string
	off       uint
}

// indexCensus: distinct index entries (exact duplicates merged) per blob key.
func indexCensus(view *model.StoreView) map[string][]model.Blob {
	out := map[string][]model.Blob{}
	seen := map[entryKey]bool{}
	for k, es := range view.Indexed {
		for _, e := range es {
			ek := entryKey{k, e.Pack, e.Offset}
			if seen[ek] {
				continue
			}
			seen[ek] = true
			out[k] = append(out[k], e)
		}
	}
	return out
}

// TestVerifC10: a full prune leaves no waste and reports accurate statistics.
// Histories with crashed backups, repair index (which indexes orphaned packs
// and so creates duplicates), forgotten snapshots and a deleted unneeded pack;
// then a fault-free `prune --max-unused 0`. The independent store decoder
// supplies the ground truth before and after.
func TestVerifC10(t *testing.T) {
	hx.Main(t, "C10", func(r *hx.Rec) {
		tp := r.Tape
		cfg := genCfg(tp)
		w := newWorld(r, cfg)
		nBackups := tp.Range(2, 5)
		r.Set("cfg", cfg.String())
		simrt.Run(r.T, w.s, 15*time.Minute, func() {
			w.begin()
			defer w.end()
			if !w.setup() {
				return
			}
			tree := w.genTree(12)
			var hist []string
			crashes := 0
			repairLater := false
			// scenario: a used blob ends up in two packs that are both partly used, each next to other used
			// blobs: A (crashed, its packs are indexed later), B sharing files with A, repair index, then
			// reduced versions of both, and B's first snapshot forgotten
			scenario := tp.Choose(4) == 0
			if scenario {
				a := w.genTree(10)
				b := w.genTree(8)
				for i, k := range append([]*simfs.Node(nil), a.Kids...) {
					if i%2 == 0 {
						b.Remove(k.Name)
						b.Add(k.Clone())
					}
				}
				// "A crashed after its last pack was stored": run it to the end, then take away what comes after
				// the packs (index files and the snapshot)
				idx0 := map[string]bool{}
				for _, n := range w.store.Names(backend.IndexFile) {
					idx0[n] = true
				}
				snap0 := map[string]bool{}
				for _, n := range w.snapshotIDs() {
					snap0[n] = true
				}
				if !w.backupOK(a, BackupOptions{}, "backup A") {
					return
				}
				for _, n := range w.store.Names(backend.IndexFile) {
					if !idx0[n] {
						w.store.Del(backend.Handle{Type: backend.IndexFile, Name: n})
					}
				}
				gone := map[string]bool{}
				for _, n := range w.snapshotIDs() {
					if !snap0[n] {
						w.store.Del(backend.Handle{Type: backend.SnapshotFile, Name: n})
						gone[n] = true
					}
				}
				w.dropGone(gone, "history", "crash of backup A before its index was stored")
				f := fault{Kind: "crash", At: 0}
				before := map[string]bool{}
				for _, id := range w.snapshotIDs() {
					before[id] = true
				}
				if !w.backupOK(b, BackupOptions{}, "backup B") {
					return
				}
				sB := ""
				for _, id := range w.snapshotIDs() {
					if !before[id] {
						sB = id
					}
				}
				var err error
				w.free(func() { err = w.cmdRepairIndex(w.newProc("repair-index"), false) })
				if err != nil {
					r.Fail("history", "repair-index-failed", "repair index failed: %v", err)
					return
				}
				shrink := func(t *simfs.Node) *simfs.Node {
					c := t.Clone()
					for i, k := range append([]*simfs.Node(nil), c.Kids...) {
						if i%2 == 1 && tp.Choose(2) == 0 {
							c.Remove(k.Name)
						}
					}
					return c
				}
				if !w.backupOK(shrink(a), BackupOptions{}, "backup A'") || !w.backupOK(shrink(b), BackupOptions{}, "backup B'") {
					return
				}
				_ = f
				hist = append(hist, "backup A (crashed after its last pack)", "backup B (shares files with A)", "repair-index", "backup A'", "backup B'")
				if sB != "" {
					w.free(func() { err = w.cmdForget(w.newProc("forget"), []string{sB}, false, PruneOptions{MaxUnused: "5%"}) })
					if err != nil {
						r.Fail("history", "forget-failed", "forget failed: %v", err)
						return
					}
					w.dropGone(map[string]bool{sB: true}, "history", "forget")
					hist = append(hist, "forget(B)")
				}
				nBackups = 0
				crashes++
			}
			for i := 0; i < nBackups; i++ {
				if repairLater && i > 0 {
					// same tree as the crashed attempt, then repair index: the orphaned packs become duplicates
					if !w.backupOK(tree, BackupOptions{}, fmt.Sprintf("backup %d (after crash)", i)) {
						return
					}
					var err error
					w.free(func() { err = w.cmdRepairIndex(w.newProc("repair-index"), false) })
					if err != nil {
						r.Fail("history", "repair-index-failed", "repair index failed: %v", err)
						return
					}
					hist = append(hist, "backup", "repair-index")
					repairLater = false
					tree = w.mutateTree(tree)
					continue
				}
				if tp.Choose(3) == 0 {
					f := fault{Kind: "crash", At: 1 + tp.Choose(14)}
					w.backupFaulty(tree, f)
					w.recoverLocks("after crashed backup")
					hist = append(hist, "backup("+f.String()+")")
					crashes++
					switch tp.Choose(3) {
					case 1:
						// index the orphaned packs only after the next backup has stored the same blobs again
						repairLater = true
						continue
					case 0:
						var err error
						w.free(func() { err = w.cmdRepairIndex(w.newProc("repair-index"), false) })
						if err != nil {
							r.Fail("history", "repair-index-failed", "repair index failed: %v", err)
							return
						}
						hist = append(hist, "repair-index")
					}
				} else {
					if !w.backupOK(tree, BackupOptions{Force: tp.Choose(3) == 0}, fmt.Sprintf("backup %d", i)) {
						return
					}
					hist = append(hist, "backup")
				}
				if tp.Choose(3) == 0 {
					tree = w.genTree(10)
				} else {
					tree = w.mutateTree(tree)
				}
			}
			ids := w.sortedSnaps()
			forget := map[string]bool{}
			var forgetIDs []string
			for i, id := range ids {
				if i > 0 && !scenario && tp.Choose(2) == 0 {
					forget[id] = true
					forgetIDs = append(forgetIDs, id)
				}
			}
			if len(forgetIDs) > 0 {
				var err error
				w.free(func() { err = w.cmdForget(w.newProc("forget"), forgetIDs, false, PruneOptions{MaxUnused: "5%"}) })
				if err != nil {
					r.Fail("history", "forget-failed", "forget failed: %v", err)
					return
				}
				w.dropGone(forget, "history", "forget")
				hist = append(hist, fmt.Sprintf("forget(%d)", len(forgetIDs)))
			}
			w.postRun()
			if r.Failed() {
				return
			}
			// ---- ground truth before
			before := model.View(w.key, w.store.Clone(), true)
			used := map[string]bool{}
			for _, sn := range before.Snapshots {
				need, missing := before.Reachable(sn.Tree)
				if len(missing) > 0 {
					r.Fail("history", "incomplete-before-prune", "a snapshot is incomplete before prune: %v", missing[0])
					return
				}
				for k := range need {
					used[k] = true
				}
			}
			cens := indexCensus(before)
			// optionally delete a pack that holds only unused blobs ("missing unneeded pack")
			if tp.Choose(4) == 0 {
				packUsed := map[string]bool{}
				packIndexed := map[string]bool{}
				for k, es := range cens {
					for _, e := range es {
						packIndexed[e.Pack] = true
						if used[k] {
							packUsed[e.Pack] = true
						}
					}
				}
				var cands []string
				for p := range packIndexed {
					if !packUsed[p] && before.Packs[p] != nil {
						cands = append(cands, p)
					}
				}
				sort.Strings(cands)
				if len(cands) > 0 {
					p := cands[tp.Choose(len(cands))]
					w.store.Del(backend.Handle{Type: backend.PackFile, Name: p})
					delete(before.Packs, p)
					delete(before.PackSizes, p)
					hist = append(hist, "delete-unneeded-pack")
					w.s.Count("fault:unneeded-pack-deleted")
				}
			}
			r.Set("history", fmt.Sprint(hist))
			var wantUsed, wantDup, wantUnused uint
			var wantUsedDupSize, wantUnusedSize, wantUnref uint64
			packIndexed := map[string]bool{}
			for k, es := range cens {
				for _, e := range es {
					packIndexed[e.Pack] = true
				}
				if used[k] {
					wantUsed++
					wantDup += uint(len(es) - 1)
					for _, e := range es {
						wantUsedDupSize += uint64(e.Length)
					}
				} else {
					wantUnused += uint(len(es))
					for _, e := range es {
						wantUnusedSize += uint64(e.Length)
					}
				}
			}
			var wantUnrefPacks uint
			for p, sz := range before.PackSizes {
				if !packIndexed[p] {
					wantUnrefPacks++
					wantUnref += uint64(sz)
				}
			}
			if scenario {
				r.Count("scenario_runs", 1)
				if wantDup > 0 {
					r.Count("scenario_runs_with_duplicates", 1)
				}
			}
			// ---- the prune under test (scheduled, fault-free, JSON statistics)
			pr := w.newProc("prune")
			pr.gopts.JSON = true
			popts := PruneOptions{MaxUnused: "0"}
			err := pr.run(func(ctx context.Context, g global.Options, term ui.Terminal) error {
				return runPrune(ctx, popts, g, term)
			})
			w.postRun()
			if err != nil {
				r.Fail("prune", "prune-failed", "history %v: fault-free full prune failed: %v\n%s", hist, err, firstLines(pr.term.Err(), 6))
				return
			}
			var stats repository.PruneStats
			found := false
			for _, line := range strings.Split(pr.term.Out(), "\n") {
				if strings.Contains(line, `"message_type":"summary"`) && json.Unmarshal([]byte(line), &stats) == nil {
					found = true
				}
			}
			if !found {
				r.Abort = "no prune statistics in output: " + firstLines(pr.term.Out(), 5)
				return
			}
			where := fmt.Sprintf("history %v", hist)
			if stats.Blobs.Used != wantUsed || stats.Blobs.Duplicate != wantDup || stats.Blobs.Unused != wantUnused {
				r.Fail("stats-before", "blob-counts", "%s: prune reports used/duplicate/unused blobs %d/%d/%d, the repository had %d/%d/%d", where, stats.Blobs.Used, stats.Blobs.Duplicate, stats.Blobs.Unused, wantUsed, wantDup, wantUnused)
			}
			if stats.Size.Used+stats.Size.Duplicate != wantUsedDupSize || stats.Size.Unused != wantUnusedSize {
				r.Fail("stats-before", "blob-sizes", "%s: prune reports used+duplicate/unused bytes %d/%d, the repository had %d/%d", where, stats.Size.Used+stats.Size.Duplicate, stats.Size.Unused, wantUsedDupSize, wantUnusedSize)
			}
			if stats.Size.Unref != wantUnref || stats.Packs.Unref != wantUnrefPacks {
				r.Fail("stats-before", "unreferenced", "%s: prune reports %d unreferenced packs / %d bytes, the repository had %d / %d", where, stats.Packs.Unref, stats.Size.Unref, wantUnrefPacks, wantUnref)
			}
			// ---- ground truth after
			after := model.View(w.key, w.store.Clone(), true)
			acens := indexCensus(after)
			var nAfter uint
			var sizeAfter uint64
			var keys []string
			for k := range acens {
				keys = append(keys, k)
			}
			sort.Strings(keys)
			for _, k := range keys {
				es := acens[k]
				nAfter += uint(len(es))
				if !used[k] {
					r.Fail("no-waste", "unused-blob-remains", "%s: after the full prune the index still names blob %s which no snapshot uses", where, k[:13])
				}
				if len(es) > 1 {
					r.Fail("no-waste", "duplicate-remains", "%s: after the full prune blob %s is indexed %d times", where, k[:13], len(es))
				}
				for _, e := range es {
					sizeAfter += uint64(e.Length)
					if after.Packs[e.Pack] == nil {
						r.Fail("no-waste", "index-names-missing-pack", "%s: after the prune the index names pack %s which does not exist (or is unreadable)", where, e.Pack[:8])
					}
				}
				if !after.Available(k) {
					r.Fail("no-waste", "index-entry-wrong", "%s: after the prune the entry for %s does not match the pack content", where, k[:13])
				}
			}
			for k := range used {
				if len(acens[k]) == 0 {
					r.Fail("no-loss", "used-blob-gone", "%s: used blob %s is no longer indexed after the prune", where, k[:13])
				}
			}
			aIndexedPacks := map[string]bool{}
			for _, es := range acens {
				for _, e := range es {
					aIndexedPacks[e.Pack] = true
				}
			}
			for p := range after.PackSizes {
				if !aIndexedPacks[p] {
					r.Fail("no-waste", "pack-without-index-entry", "%s: after the prune pack %s has no index entry", where, p[:8])
				}
			}
			if stats.Blobs.Remain != nAfter {
				r.Fail("stats-after", "remaining-blobs", "%s: prune announced %d remaining blobs, the index has %d afterwards", where, stats.Blobs.Remain, nAfter)
			}
			if stats.Blobs.RemoveTotal != wantUsed+wantDup+wantUnused-nAfter {
				r.Fail("stats-after", "removed-blobs", "%s: prune announced the removal of %d blobs, %d were removed", where, stats.Blobs.RemoveTotal, wantUsed+wantDup+wantUnused-nAfter)
			}
			if cfg.Version == 1 || cfg.Comp == repository.CompressionOff {
				if stats.Size.Remain != sizeAfter {
					r.Fail("stats-after", "remaining-bytes", "%s: prune announced %d remaining bytes, the indexed blobs occupy %d afterwards", where, stats.Size.Remain, sizeAfter)
				}
			}
			if stats.Size.RemainUnused != 0 {
				r.Fail("stats-after", "remaining-unused", "%s: prune --max-unused 0 announced %d unused bytes remaining", where, stats.Size.RemainUnused)
			}
			r.Count("crashed_backups", crashes)
			r.Count("duplicates_before", int(wantDup))
			r.Count("unused_before", int(wantUnused))
			r.Count("unref_packs_before", int(wantUnrefPacks))
			w.verifyAll("content", where+", after the prune")
			w.checkClean("check", where+", after the prune")
		})
	})
}
