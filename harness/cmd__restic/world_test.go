package main

// Lifecycle harness "L": a world of simulated restic processes that run the
// real command functions (runInit, runBackup, runForget, runPrune, runCheck,
// ...) on the full backend wrapper stack over one simulated object store.
// See /verif/DESIGN.md section 3.

import (
	"bytes"
	"context"
	"fmt"
	"io"
	"net/http"
	"os"
	"sort"
	"strings"
	"sync"
	"time"

	"github.com/restic/restic/internal/backend"
	"github.com/restic/restic/internal/backend/limiter"
	"github.com/restic/restic/internal/backend/location"
	"github.com/restic/restic/internal/data"
	"github.com/restic/restic/internal/fs"
	"github.com/restic/restic/internal/global"
	"github.com/restic/restic/internal/options"
	"github.com/restic/restic/internal/repository"
	"github.com/restic/restic/internal/repository/crypto"
	"github.com/restic/restic/internal/restic"
	"github.com/restic/restic/internal/ui"
	"github.com/restic/restic/internal/ui/progress"
	"github.com/restic/restic/internal/verif/hk"
	"github.com/restic/restic/internal/verif/hx"
	"github.com/restic/restic/internal/verif/model"
	"github.com/restic/restic/internal/verif/simbe"
	"github.com/restic/restic/internal/verif/simfs"
	"github.com/restic/restic/internal/verif/simrt"
)

// ---- terminal -------------------------------------------------------------

type simTerm struct {
	mu  sync.Mutex
	out bytes.Buffer
	err bytes.Buffer
}

var _ ui.Terminal = &simTerm{}

func addNL(s string) string {
	if !strings.HasSuffix(s, "\n") {
		return s + "\n"
	}
	return s
}

func (t *simTerm) Print(line string) {
	t.mu.Lock()
	t.out.WriteString(addNL(line))
	t.mu.Unlock()
}
func (t *simTerm) Error(line string) {
	t.mu.Lock()
	t.err.WriteString(addNL(line))
	t.mu.Unlock()
}
func (t *simTerm) SetStatus([]string)     {}
func (t *simTerm) CanUpdateStatus() bool  { return false }
func (t *simTerm) InputRaw() io.ReadCloser { return io.NopCloser(strings.NewReader("")) }
func (t *simTerm) InputIsTerminal() bool  { return false }
func (t *simTerm) ReadPassword(context.Context, string) (string, error) {
	return "", fmt.Errorf("no terminal")
}
func (t *simTerm) OutputWriter() io.Writer { return lockedWriter{t, &t.out} }
func (t *simTerm) OutputRaw() io.Writer    { return lockedWriter{t, &t.out} }
func (t *simTerm) OutputIsTerminal() bool  { return false }
func (t *simTerm) Out() string {
	t.mu.Lock()
	defer t.mu.Unlock()
	return t.out.String()
}
func (t *simTerm) Err() string {
	t.mu.Lock()
	defer t.mu.Unlock()
	return t.err.String()
}

type lockedWriter struct {
	t *simTerm
	b *bytes.Buffer
}

func (w lockedWriter) Write(p []byte) (int, error) {
	w.t.mu.Lock()
	defer w.t.mu.Unlock()
	return w.b.Write(p)
}

// ---- world ----------------------------------------------------------------

type worldCfg struct {
	Version   uint
	Comp      repository.CompressionMode
	PackSize  int // bytes, through the simify knob
	Conns     uint
	Atomic    bool
	IndexFull int
	Procs     int
	YieldMu   bool
	FSPark    bool
	Host      string
}

type snapModel struct {
	ID   string
	Root *simfs.Node // the "src" directory that was backed up
	Orig string      // `original` field of rewritten snapshots
	Tree string      // root tree ID (filled in lazily by syncModel)
}

type world struct {
	extraClientHook func(c *simbe.Client) // applied to a process's client for a second repository (copy's source)
	forcedFired int // scripted faults (errbefore/errafter/sticky) that fired
	r     *hx.Rec
	s     *simrt.Sim
	tp    *simrt.Tape
	cfg   worldCfg
	store *simbe.Store
	stores map[string]*simbe.Store
	nproc int
	pw    string
	key   *crypto.Key
	st    *simrt.Stream
	inode uint64
	// source trees per simulated process (looked up by the backup FS hook)
	srcMu sync.Mutex
	src   map[string]*simfs.FS
	snaps map[string]*snapModel // acknowledged snapshots still expected to exist
	// C04: plant markers in generated contents and names
	keyHint      func() string // key hint for new processes (repositories with more than 20 keys)
	markers      bool
	markerList   [][]byte
	keepMonitors []func(simbe.Mutation, []byte)
}

type proc struct {
	w      *world
	p      *simrt.Proc
	cl     *simbe.Client
	gopts  global.Options
	term   *simTerm
	ctx    context.Context
	cancel context.CancelFunc
}

func genCfg(tp *simrt.Tape) worldCfg {
	c := worldCfg{}
	c.Version = uint(tp.Range(1, 2))
	c.Comp = []repository.CompressionMode{repository.CompressionAuto, repository.CompressionOff, repository.CompressionMax}[tp.Choose(3)]
	c.PackSize = []int{64 << 10, 16 << 10, 256 << 10, 4 << 20}[tp.Choose(4)]
	c.Conns = uint([]int{2, 3, 5, 8}[tp.Choose(4)])
	c.Atomic = tp.Choose(2) == 0
	c.IndexFull = []int{0, 4, 20}[tp.Choose(3)]
	c.Procs = tp.Range(1, 6)
	c.YieldMu = tp.Choose(4) == 3
	c.FSPark = tp.Choose(2) == 1
	c.Host = "simhost"
	return c
}

func (c worldCfg) String() string {
	return fmt.Sprintf("v%d comp=%s pack=%d conns=%d atomic=%v idxfull=%d procs=%d yieldmu=%v fspark=%v", c.Version, c.Comp.String(), c.PackSize, c.Conns, c.Atomic, c.IndexFull, c.Procs, c.YieldMu, c.FSPark)
}

var worldOnce sync.Once

// newWorld prepares the simulation object; call inside hx run func before simrt.Run.
func newWorld(r *hx.Rec, cfg worldCfg) *world {
	worldOnce.Do(func() {
		repository.TestUseLowSecurityKDFParameters(quietLogger{})
		// the scratch directory is the working directory; make the relative backup target exist
		_ = os.MkdirAll("src", 0o755)
	})
	s := simrt.New(r.Tape)
	r.Sim = s
	if hx.KeepAllEvents {
		s.KeepEvents = -1
	}
	s.Procs = cfg.Procs
	s.YieldMutex = cfg.YieldMu
	s.MaxSteps = 2000000
	s.Knobs["packsize"] = cfg.PackSize
	w := &world{r: r, s: s, tp: r.Tape, cfg: cfg, pw: "pw-main", src: map[string]*simfs.FS{}, snaps: map[string]*snapModel{}, stores: map[string]*simbe.Store{}}
	return w
}

type quietLogger struct{}

func (quietLogger) Logf(string, ...any) {}
func (quietLogger) Helper()             {}

// begin must be called at the start of the bubble.
func (w *world) begin() {
	w.store = simbe.NewStore(w.s)
	w.stores["main"] = w.store
	w.st = w.tp.Stream()
	hk.SetIndexFullThreshold(w.cfg.IndexFull)
	backupFSTestHook = func(orig fs.FS) fs.FS {
		p := simrt.CurProc()
		if p == nil {
			return orig
		}
		w.srcMu.Lock()
		defer w.srcMu.Unlock()
		if f := w.src[p.Name]; f != nil {
			return f
		}
		return orig
	}
}

func (w *world) end() {
	hk.SetIndexFullThreshold(0)
	backupFSTestHook = nil
}

type simCfg struct{ Name string }

// newProc creates a simulated restic process with its own store client and global options.
func (w *world) newProc(kind string) *proc {
	return w.newProcOn(kind, "main")
}

func (w *world) newProcOn(kind, repo string) *proc {
	w.nproc++
	name := fmt.Sprintf("p%d-%s", w.nproc, kind)
	p := w.s.NewProc(name, 1000000+w.nproc, w.cfg.Host)
	st := w.stores[repo]
	cl := st.NewClient(p, w.cfg.Conns, w.cfg.Atomic)
	ctx, cancel := context.WithCancel(context.Background())
	var extra []*simbe.Client
	cl.OnCrash = func() {
		cancel()
		for _, e := range extra {
			e.Dead = true
		}
	}
	reg := location.NewRegistry()
	reg.Register(location.NewLimitedBackendFactory[simCfg, *simbe.Client]("sim",
		func(s string) (*simCfg, error) { return &simCfg{Name: s}, nil },
		location.NoPassword,
		func(_ context.Context, cfg simCfg, _ limiter.Limiter, _ func(string, ...any)) (*simbe.Client, error) {
			c := w.clientFor(p, cfg.Name, cl)
			if c != cl {
				extra = append(extra, c)
			}
			return c, nil
		},
		func(_ context.Context, cfg simCfg, _ limiter.Limiter, _ func(string, ...any)) (*simbe.Client, error) {
			c := w.clientFor(p, cfg.Name, cl)
			if c != cl {
				extra = append(extra, c)
			}
			return c, nil
		}))
	term := &simTerm{}
	g := global.Options{
		Repo:        "sim:" + repo,
		Quiet:       true,
		NoCache:     true,
		Password:    w.pw,
		Extended:    make(options.Options),
		Compression: w.cfg.Comp,
		Backends:    reg,
		Term:        term,
	}
	if w.keyHint != nil {
		g.KeyHint = w.keyHint()
	}
	return &proc{w: w, p: p, cl: cl, gopts: g, term: term, ctx: ctx, cancel: cancel}
}

// clientFor returns the process's client for the named repository ("sim:<name>").
func (w *world) clientFor(p *simrt.Proc, cfg string, main *simbe.Client) *simbe.Client {
	name := strings.TrimPrefix(cfg, "sim:")
	st := w.stores[name]
	if st == nil || st == main.S {
		return main
	}
	c := st.NewClient(p, w.cfg.Conns, w.cfg.Atomic)
	c.F = main.F
	if w.extraClientHook != nil {
		w.extraClientHook(c)
	}
	return c
}

var _ = http.DefaultClient

// run executes f as this process (a root task) and schedules until it has finished.
func (pr *proc) run(f func(ctx context.Context, gopts global.Options, term ui.Terminal) error) (err error) {
	pr.w.s.Do(pr.p.Name, pr.p, func() {
		err = f(pr.ctx, pr.gopts, pr.term)
	})
	pr.exit()
	return err
}

// start launches f as this process without waiting (for concurrent processes).
func (pr *proc) start(f func(ctx context.Context, gopts global.Options, term ui.Terminal) error, done func(error)) {
	pr.w.s.Go(pr.p.Name, pr.p, func() {
		err := f(pr.ctx, pr.gopts, pr.term)
		pr.exit()
		if done != nil {
			done(err)
		}
	})
}

func (pr *proc) exit() {
	pr.cancel()
	pr.p.Dead.Store(true)
}

// free runs f with the scheduler in pass-through mode (oracle and setup phases).
func (w *world) free(f func()) {
	w.s.SetFree(true)
	defer w.s.SetFree(false)
	f()
}

// ---- commands ---------------------------------------------------------------

func (w *world) cmdInit(pr *proc) error {
	return pr.run(func(ctx context.Context, g global.Options, term ui.Terminal) error {
		return runInit(ctx, InitOptions{RepositoryVersion: fmt.Sprint(w.cfg.Version)}, g, nil, term)
	})
}

// openRepo opens the repository as pr (must run inside a task).
func openRepo(ctx context.Context, g global.Options, term ui.Terminal) (*repository.Repository, error) {
	printer := progress.NewTerminalPrinter(false, 0, term)
	return global.OpenRepository(ctx, g, printer)
}

func (w *world) fetchKey() error {
	pr := w.newProc("key")
	return pr.run(func(ctx context.Context, g global.Options, term ui.Terminal) error {
		repo, err := openRepo(ctx, g, term)
		if err != nil {
			return err
		}
		w.key = repo.Key()
		return nil
	})
}

func (w *world) snapshotIDs() []string { return w.store.Names(backend.SnapshotFile) }

type backupResult struct {
	Err   error
	NewID string // snapshot file that appeared (if any)
}

// cmdBackup backs up root (the "src" directory) as process pr.
func (w *world) cmdBackup(pr *proc, root *simfs.Node, opts BackupOptions) backupResult {
	before := map[string]bool{}
	for _, id := range w.snapshotIDs() {
		before[id] = true
	}
	sfs := simfs.New(root)
	sfs.Park = w.cfg.FSPark
	sfs.EOFWithData = w.cfg.FSPark // the last bytes may arrive together with io.EOF
	w.srcMu.Lock()
	w.src[pr.p.Name] = sfs
	w.srcMu.Unlock()
	if opts.Host == "" {
		opts.Host = w.cfg.Host
	}
	opts.GroupBy = data.SnapshotGroupByOptions{Host: true, Path: true}
	err := pr.run(func(ctx context.Context, g global.Options, term ui.Terminal) error {
		return runBackup(ctx, opts, g, term, []string{"src"})
	})
	res := backupResult{Err: err}
	for _, id := range w.snapshotIDs() {
		if !before[id] {
			res.NewID = id
		}
	}
	return res
}

func (w *world) cmdCheck(pr *proc, readData bool) (checkSummary, error, string) {
	var sum checkSummary
	err := pr.run(func(ctx context.Context, g global.Options, term ui.Terminal) error {
		var err error
		sum, err = runCheck(ctx, CheckOptions{ReadData: readData}, g, nil, term)
		return err
	})
	return sum, err, pr.term.Err()
}

func (w *world) cmdForget(pr *proc, ids []string, prune bool, popts PruneOptions) error {
	return pr.run(func(ctx context.Context, g global.Options, term ui.Terminal) error {
		return runForget(ctx, ForgetOptions{Prune: prune}, popts, g, term, ids)
	})
}

func (w *world) cmdPrune(pr *proc, popts PruneOptions) error {
	return pr.run(func(ctx context.Context, g global.Options, term ui.Terminal) error {
		return runPrune(ctx, popts, g, term)
	})
}

func (w *world) cmdUnlock(pr *proc) error {
	return pr.run(func(ctx context.Context, g global.Options, term ui.Terminal) error {
		return runUnlock(ctx, UnlockOptions{}, g, term)
	})
}

// ---- source tree generation --------------------------------------------------

var baseTime = time.Date(2015, 3, 4, 5, 6, 7, 0, time.UTC)

func (w *world) newFile(name string, size int, kind int) *simfs.Node {
	w.inode++
	data := hk.Content(w.st, size, kind)
	if w.markers {
		// a high-entropy marker in the name and (if it fits) in the content
		mk := w.newMarker()
		name = name + "-" + string(mk)
		if len(data) >= 2*len(mk) {
			copy(data[len(data)/3:], mk)
		}
	}
	return &simfs.Node{Name: name, Mode: 0o644, Data: data, MTime: baseTime.Add(time.Duration(w.inode) * time.Second), Inode: 100 + w.inode, Links: 1, UID: 1000, GID: 1000}
}

func (w *world) newMarker() []byte {
	const alphabet = "abcdefghijklmnopqrstuvwxyzABCDEFGHIJKLMNOPQRSTUVWXYZ0123456789"
	mk := make([]byte, 24)
	for i := range mk {
		mk[i] = alphabet[w.st.Intn(len(alphabet))]
	}
	w.markerList = append(w.markerList, mk)
	return mk
}

func (w *world) newDir(name string) *simfs.Node {
	w.inode++
	return &simfs.Node{Name: name, Mode: os.ModeDir | 0o755, MTime: baseTime.Add(time.Duration(w.inode) * time.Second), Inode: 100 + w.inode, Links: 1, UID: 1000, GID: 1000}
}

var fileSizes = []int{0, 1, 300, 5000, 40000, 130000, 600000}

// genTree generates a source directory "src" with up to maxItems entries.
func (w *world) genTree(maxItems int) *simfs.Node {
	tp := w.tp
	root := w.newDir("src")
	n := tp.Range(1, maxItems)
	dirs := []*simfs.Node{root}
	var files []*simfs.Node
	for i := 0; i < n; i++ {
		parent := dirs[tp.Choose(len(dirs))]
		switch tp.Choose(8) {
		case 0:
			d := w.newDir(fmt.Sprintf("d%d", i))
			parent.Add(d)
			dirs = append(dirs, d)
		case 1:
			w.inode++
			parent.Add(&simfs.Node{Name: fmt.Sprintf("l%d", i), Mode: os.ModeSymlink | 0o777, Target: fmt.Sprintf("../target-%d", i), MTime: baseTime, Inode: 100 + w.inode, Links: 1, UID: 1000, GID: 1000})
		case 2:
			if len(files) > 0 {
				// duplicate content
				src := files[tp.Choose(len(files))]
				f := w.newFile(fmt.Sprintf("c%d", i), 0, 0)
				f.Data = src.Data
				parent.Add(f)
				files = append(files, f)
				continue
			}
			fallthrough
		default:
			sz := fileSizes[tp.Choose(len(fileSizes))]
			if sz > 8*w.cfg.PackSize {
				sz = 8 * w.cfg.PackSize
			}
			f := w.newFile(fmt.Sprintf("f%d", i), sz, tp.Choose(3))
			parent.Add(f)
			files = append(files, f)
		}
	}
	return root
}

func collect(n *simfs.Node, dirs *[]*simfs.Node, files *[]*simfs.Node) {
	if n.IsDir() {
		*dirs = append(*dirs, n)
		for _, k := range n.Kids {
			collect(k, dirs, files)
		}
	} else if n.IsRegular() {
		*files = append(*files, n)
	}
}

// mutateTree returns a modified deep copy of root: files changed, added, removed.
func (w *world) mutateTree(root *simfs.Node) *simfs.Node {
	tp := w.tp
	nr := root.Clone()
	var dirs, files []*simfs.Node
	collect(nr, &dirs, &files)
	nchg := tp.Range(0, 4)
	for i := 0; i < nchg; i++ {
		switch tp.Choose(4) {
		case 0: // modify
			if len(files) > 0 {
				f := files[tp.Choose(len(files))]
				sz := fileSizes[tp.Choose(len(fileSizes))]
				if sz > 8*w.cfg.PackSize {
					sz = 8 * w.cfg.PackSize
				}
				f.Data = hk.Content(w.st, sz, tp.Choose(3))
				w.inode++
				f.MTime = baseTime.Add(time.Duration(w.inode) * time.Second)
			}
		case 1: // add file
			d := dirs[tp.Choose(len(dirs))]
			sz := fileSizes[tp.Choose(len(fileSizes))]
			if sz > 8*w.cfg.PackSize {
				sz = 8 * w.cfg.PackSize
			}
			w.inode++
			d.Add(w.newFile(fmt.Sprintf("n%d", w.inode), sz, tp.Choose(3)))
		case 2: // remove
			d := dirs[tp.Choose(len(dirs))]
			if len(d.Kids) > 0 {
				d.Remove(d.Kids[tp.Choose(len(d.Kids))].Name)
			}
		case 3: // add dir with a file
			d := dirs[tp.Choose(len(dirs))]
			w.inode++
			nd := w.newDir(fmt.Sprintf("nd%d", w.inode))
			nd.Add(w.newFile("x", 2000, 0))
			d.Add(nd)
			dirs = append(dirs, nd)
		}
	}
	return nr
}

// ---- oracles -----------------------------------------------------------------

// verifySnapshot walks snapshot id through the real read path (LoadSnapshot,
// LoadTree, LoadBlob) and compares it with the source model. Must be called
// inside a task. Returns a description of the first difference or "".
func verifySnapshot(ctx context.Context, repo *repository.Repository, id string, root *simfs.Node) string {
	rid, err := restic.ParseID(id)
	if err != nil {
		return err.Error()
	}
	sn, err := data.LoadSnapshot(ctx, repo, rid)
	if err != nil {
		return fmt.Sprintf("LOADERR: snapshot %s cannot be loaded: %v", id[:8], err)
	}
	if sn.Tree == nil {
		return "snapshot without tree"
	}
	nodes, err := loadTreeNodes(ctx, repo, *sn.Tree)
	if err != nil {
		return fmt.Sprintf("LOADERR: snapshot %s: root tree cannot be loaded: %v", id[:8], err)
	}
	var top *data.Node
	for _, n := range nodes {
		if n.Name == root.Name {
			top = n
		}
	}
	if top == nil || len(nodes) != 1 {
		return fmt.Sprintf("snapshot %s: root tree has %d nodes, want exactly %q", id[:8], len(nodes), root.Name)
	}
	return compareNode(ctx, repo, top, root, "/"+root.Name)
}

func loadTreeNodes(ctx context.Context, repo *repository.Repository, id restic.ID) ([]*data.Node, error) {
	it, err := data.LoadTree(ctx, repo, id)
	if err != nil {
		return nil, err
	}
	var nodes []*data.Node
	for item := range it {
		if item.Error != nil {
			return nil, item.Error
		}
		nodes = append(nodes, item.Node)
	}
	return nodes, nil
}

func compareNode(ctx context.Context, repo *repository.Repository, got *data.Node, want *simfs.Node, path string) string {
	if got.Name != want.Name {
		return fmt.Sprintf("%s: name %q != %q", path, got.Name, want.Name)
	}
	switch {
	case want.IsDir():
		if got.Type != data.NodeTypeDir {
			return fmt.Sprintf("%s: type %s, want dir", path, got.Type)
		}
		if got.Subtree == nil {
			return fmt.Sprintf("%s: dir without subtree", path)
		}
		nodes, err := loadTreeNodes(ctx, repo, *got.Subtree)
		if err != nil {
			return fmt.Sprintf("LOADERR: %s: tree %v cannot be loaded: %v", path, got.Subtree.Str(), err)
		}
		if len(nodes) != len(want.Kids) {
			var names []string
			for _, n := range nodes {
				names = append(names, n.Name)
			}
			return fmt.Sprintf("%s: %d entries %v, want %d", path, len(nodes), names, len(want.Kids))
		}
		for i, k := range want.Kids {
			if d := compareNode(ctx, repo, nodes[i], k, path+"/"+k.Name); d != "" {
				return d
			}
		}
	case want.IsRegular():
		if got.Type != data.NodeTypeFile {
			return fmt.Sprintf("%s: type %s, want file", path, got.Type)
		}
		var buf []byte
		for _, c := range got.Content {
			b, err := repo.LoadBlob(ctx, restic.BlobHandle{ID: c, Type: restic.DataBlob}, nil)
			if err != nil {
				return fmt.Sprintf("LOADERR: %s: blob %v cannot be loaded: %v", path, c.Str(), err)
			}
			buf = append(buf, b...)
		}
		if !bytes.Equal(buf, want.Data) {
			return fmt.Sprintf("%s: content differs (%d bytes restored, %d bytes in source)", path, len(buf), len(want.Data))
		}
		if got.Size != uint64(len(want.Data)) {
			return fmt.Sprintf("%s: size %d, want %d", path, got.Size, len(want.Data))
		}
	case want.Mode&os.ModeSymlink != 0:
		if got.Type != data.NodeTypeSymlink || got.LinkTarget != want.Target {
			return fmt.Sprintf("%s: symlink %s -> %q, want -> %q", path, got.Type, got.LinkTarget, want.Target)
		}
	}
	if !got.ModTime.Equal(want.MTime) {
		return fmt.Sprintf("%s: mtime %v, want %v", path, got.ModTime, want.MTime)
	}
	special := os.ModeSetuid | os.ModeSetgid | os.ModeSticky
	if got.Mode.Perm() != want.Mode.Perm() || got.Mode&special != want.Mode&special {
		return fmt.Sprintf("%s: mode %v, want %v", path, got.Mode, want.Mode)
	}
	if got.UID != want.UID || got.GID != want.GID {
		return fmt.Sprintf("%s: owner %d:%d, want %d:%d", path, got.UID, got.GID, want.UID, want.GID)
	}
	if got.User != want.User || got.Group != want.Group {
		return fmt.Sprintf("%s: owner names %q:%q, want %q:%q", path, got.User, got.Group, want.User, want.Group)
	}
	if want.Mode&os.ModeDevice != 0 && got.Device != want.Dev {
		return fmt.Sprintf("%s: device %#x, want %#x", path, got.Device, want.Dev)
	}
	if len(got.ExtendedAttributes) != len(want.Xattr) {
		return fmt.Sprintf("%s: %d extended attributes, want %d", path, len(got.ExtendedAttributes), len(want.Xattr))
	}
	for i, x := range want.Xattr {
		if got.ExtendedAttributes[i].Name != x.Name || !bytes.Equal(got.ExtendedAttributes[i].Value, x.Value) {
			return fmt.Sprintf("%s: extended attribute %d is %s=%x, want %s=%x", path, i, got.ExtendedAttributes[i].Name, got.ExtendedAttributes[i].Value, x.Name, x.Value)
		}
	}
	return ""
}

// verifyAll checks, in a fresh process with the scheduler in pass-through
// mode, that every expected snapshot restores equal to its source model.
func (w *world) verifyAll(oracle, where string) {
	if w.r.Failed() {
		return
	}
	ids := make([]string, 0, len(w.snaps))
	for id := range w.snaps {
		ids = append(ids, id)
	}
	sort.Strings(ids)
	w.free(func() {
		pr := w.newProc("verify")
		_ = pr.run(func(ctx context.Context, g global.Options, term ui.Terminal) error {
			repo, err := openRepo(ctx, g, term)
			if err != nil {
				w.r.Fail(oracle, "open-failed", "%s: repository cannot be opened: %v", where, err)
				return nil
			}
			if err := repo.LoadIndex(ctx, restic.NoopTerminalCounterFactory); err != nil {
				w.r.Fail(oracle, "index-load-failed", "%s: index cannot be loaded: %v", where, err)
				return nil
			}
			for _, id := range ids {
				if w.store.Get(backend.Handle{Type: backend.SnapshotFile, Name: id}) == nil {
					w.r.Fail(oracle, "snapshot-missing", "%s: snapshot %s is gone", where, id[:8])
					return nil
				}
				if d := verifySnapshot(ctx, repo, id, w.snaps[id].Root); d != "" {
					w.r.Fail(oracle, "snapshot-differs", "%s: snapshot %s no longer restores to its source: %s", where, id[:8], d)
					return nil
				}
			}
			return nil
		})
	})
}

// checkClean runs the real `check --read-data` in a fresh process (pass-through
// scheduling) and fails the run if it reports an error.
func (w *world) checkClean(oracle, where string) { w.checkCleanOn("main", oracle, where) }

func (w *world) checkCleanOn(repo, oracle, where string) {
	if w.r.Failed() {
		return
	}
	w.free(func() {
		pr := w.newProcOn("check", repo)
		sum, err, errOut := w.cmdCheck(pr, true)
		if err != nil || sum.NumErrors > 0 {
			w.r.Fail(oracle, "check-errors", "%s: check --read-data reports errors: %v (NumErrors=%d)\n%s", where, err, sum.NumErrors, firstLines(errOut, 12))
		}
	})
}

func firstLines(s string, n int) string {
	l := strings.Split(s, "\n")
	if len(l) > n {
		l = l[:n]
	}
	return strings.Join(l, "\n")
}

// snapshotsComplete uses the independent store decoder: every snapshot file
// present must have all reachable blobs in a durable index entry whose pack is
// durable and contains them.
func (w *world) snapshotsComplete(oracle, where string) {
	if w.r.Failed() || w.key == nil {
		return
	}
	view := model.View(w.key, w.store.Clone(), true)
	var ids []string
	for id := range view.Snapshots {
		ids = append(ids, id)
	}
	sort.Strings(ids)
	for _, id := range ids {
		_, missing := view.Reachable(view.Snapshots[id].Tree)
		if len(missing) > 0 {
			w.r.Fail(oracle, "incomplete-snapshot", "%s: snapshot %s is in the repository but %d blobs it needs are not in any durable index entry with a durable pack (first: %s)", where, id[:8], len(missing), missing[0])
			return
		}
	}
	for id, e := range view.SnapErr {
		w.r.Fail(oracle, "undecodable-snapshot", "%s: snapshot file %s cannot be decoded: %s", where, id[:8], e)
		return
	}
}

func (w *world) faultsFired() int {
	n := 0
	for k, v := range w.s.Stats() {
		if strings.HasPrefix(k, "fault:") {
			n += v
		}
	}
	return n
}

// generic post-run checks: panic / deadlock in simulated code
func (w *world) postRun() {
	if w.s.Panic != "" {
		w.r.Fail("panic", "panic", "restic code panicked: %s", w.s.Panic)
	}
	if w.s.Deadlock != "" {
		w.r.Fail("liveness", "deadlock", "a command never finished (all goroutines blocked):\n%s", w.s.Deadlock)
	}
	w.r.SimTime = w.s.Elapsed()
}
