package data

import (
	"context"
	"errors"
	"fmt"
	"sort"
	"sync"
	"testing"
	"time"

	"github.com/restic/restic/internal/restic"
	"github.com/restic/restic/internal/verif/hx"
	"github.com/restic/restic/internal/verif/simrt"
)

// simLoader serves tree blobs from an in-memory DAG; every load is a park
// point (so the completion order of the tree loader workers is scheduled) and
// may fail or return damaged data.
type simLoader struct {
	s       *simrt.Sim
	blobs   map[restic.ID][]byte
	sizes   map[restic.ID]uint // reported by LookupBlobSize (to route "huge" trees)
	conns   uint
	missing map[restic.ID]bool
	broken  map[restic.ID]bool
	mu      sync.Mutex
	loads   map[restic.ID]int
}

func (l *simLoader) Connections() uint { return l.conns }

func (l *simLoader) LookupBlobSize(bh restic.BlobHandle) (uint, bool) {
	if sz, ok := l.sizes[bh.ID]; ok {
		return sz, true
	}
	b, ok := l.blobs[bh.ID]
	return uint(len(b)), ok
}

func (l *simLoader) LoadBlob(ctx context.Context, bh restic.BlobHandle, _ []byte) ([]byte, error) {
	simrt.Park("load", bh.ID.Str(), nil)
	l.mu.Lock()
	l.loads[bh.ID]++
	l.mu.Unlock()
	if bh.Type != restic.TreeBlob {
		return nil, errors.New("simLoader: only trees")
	}
	if l.missing[bh.ID] {
		return nil, fmt.Errorf("tree %v not found in repository", bh.ID.Str())
	}
	b, ok := l.blobs[bh.ID]
	if !ok {
		return nil, fmt.Errorf("tree %v not found in repository", bh.ID.Str())
	}
	if l.broken[bh.ID] {
		return append([]byte(nil), b[:len(b)/2]...), nil
	}
	return append([]byte(nil), b...), nil
}

type modelTree struct {
	id       restic.ID
	subtrees []restic.ID
	data     []restic.ID
}

// TestVerifC42: traversals visit exactly the reachable trees and blobs.
// Generated DAGs of trees with heavy sharing (also across roots), one tree
// reported as huge, missing and undecodable trees, on a simulated loader;
// virtual cores and connections varied, the completion order of the loader
// workers decided by the seeded scheduler.
func TestVerifC42(t *testing.T) {
	hx.Main(t, "C42", func(r *hx.Rec) {
		tp := r.Tape
		s := simrt.New(tp)
		r.Sim = s
		if hx.KeepAllEvents {
			s.KeepEvents = -1
		}
		s.Procs = tp.Range(1, 8)
		s.YieldMutex = tp.Choose(2) == 0
		conns := uint(tp.Range(1, 6))
		nTrees := tp.Range(1, 25)
		st := tp.Stream()
		newID := func() restic.ID {
			var id restic.ID
			st.Fill(id[:])
			return id
		}
		ld := &simLoader{blobs: map[restic.ID][]byte{}, sizes: map[restic.ID]uint{}, conns: conns, missing: map[restic.ID]bool{}, broken: map[restic.ID]bool{}, loads: map[restic.ID]int{}}
		var trees []modelTree
		model := map[restic.ID]*modelTree{}
		var dataPool []restic.ID
		for i := 0; i < 12; i++ {
			dataPool = append(dataPool, newID())
		}
		// bottom-up: tree i may reference any earlier tree (DAG with sharing)
		for i := 0; i < nTrees; i++ {
			b := NewTreeJSONBuilder()
			var mt modelTree
			n := tp.Range(0, 6)
			for k := 0; k < n; k++ {
				name := fmt.Sprintf("e%02d", k)
				if len(trees) > 0 && tp.Choose(2) == 0 {
					sub := trees[tp.Choose(len(trees))].id
					sid := sub
					if err := b.AddNode(&Node{Name: name, Type: NodeTypeDir, Subtree: &sid}); err != nil {
						r.Abort = err.Error()
						return
					}
					mt.subtrees = append(mt.subtrees, sub)
				} else {
					var content restic.IDs
					for c := tp.Choose(4); c > 0; c-- {
						d := dataPool[tp.Choose(len(dataPool))]
						content = append(content, d)
						mt.data = append(mt.data, d)
					}
					if err := b.AddNode(&Node{Name: name, Type: NodeTypeFile, Content: content}); err != nil {
						r.Abort = err.Error()
						return
					}
				}
			}
			buf, err := b.Finalize()
			if err != nil {
				r.Abort = err.Error()
				return
			}
			mt.id = restic.Hash(buf)
			if _, dup := model[mt.id]; dup {
				continue
			}
			ld.blobs[mt.id] = buf
			trees = append(trees, mt)
			cp := mt
			model[mt.id] = &cp
		}
		if len(trees) == 0 {
			return
		}
		// roots: the last tree plus a few others
		var roots restic.IDs
		// (roots that are subtrees of other roots, listed before or after them, possibly twice)
		for k := []int{0, 1, 2, 5, 10}[tp.Choose(5)]; k > 0; k-- {
			roots = append(roots, trees[tp.Choose(len(trees))].id)
		}
		top := tp.Choose(len(roots) + 1)
		roots = append(roots[:top], append(restic.IDs{trees[len(trees)-1].id}, roots[top:]...)...)
		// up to three trees reported as huge (all handled by the one dedicated worker)
		if tp.Choose(2) == 0 {
			for k := tp.Range(1, 3); k > 0; k-- {
				ld.sizes[trees[tp.Choose(len(trees))].id] = 60 << 20
			}
		}
		// damage
		damage := tp.Choose(4)
		var damaged restic.ID
		if damage == 1 {
			damaged = trees[tp.Choose(len(trees))].id
			ld.missing[damaged] = true
		} else if damage == 2 {
			damaged = trees[tp.Choose(len(trees))].id
			if len(ld.blobs[damaged]) > 20 {
				ld.broken[damaged] = true
			} else {
				damage = 0
			}
		}
		// model: reachable set (a damaged tree is reached but not expanded)
		reach := map[restic.ID]bool{}
		wantData := map[restic.ID]bool{}
		damagedReachable := false
		var walk func(id restic.ID)
		walk = func(id restic.ID) {
			if reach[id] {
				return
			}
			reach[id] = true
			if (damage == 1 || damage == 2) && id == damaged {
				damagedReachable = true
				return
			}
			mt := model[id]
			for _, d := range mt.data {
				wantData[d] = true
			}
			for _, sub := range mt.subtrees {
				walk(sub)
			}
		}
		for _, id := range roots {
			walk(id)
		}
		cancelAt := 0
		if tp.Choose(3) == 0 {
			cancelAt = 1 + tp.Choose(12) // the caller's context is cancelled after that many scheduling points
		}
		r.Set("trees", len(trees))
		r.Set("roots", len(roots))
		r.Set("damage", damage)
		r.Set("conns_procs", fmt.Sprintf("%d/%d", conns, s.Procs))
		ld.s = s
		simrt.Run(r.T, s, 60*time.Second, func() {
			// 1. FindUsedBlobs
			used := restic.NewBlobSet()
			var err error
			s.Do("find", nil, func() {
				err = FindUsedBlobs(context.Background(), ld, roots, used, restic.NoopCounter)
			})
			r.SimTime = s.Elapsed()
			if s.Panic != "" {
				r.Fail("panic", "panic", "%s", s.Panic)
				return
			}
			if s.Deadlock != "" {
				r.Fail("liveness", "deadlock", "traversal never finished:\n%s", s.Deadlock)
				return
			}
			if damagedReachable {
				if err == nil {
					r.Fail("error", "damage-not-reported", "a reachable tree is missing/undecodable but FindUsedBlobs returned nil")
				}
			} else {
				if err != nil {
					r.Fail("error", "error-without-damage", "FindUsedBlobs failed on an intact DAG: %v", err)
					return
				}
				var gotTrees, gotData []string
				for bh := range used {
					if bh.Type == restic.TreeBlob {
						gotTrees = append(gotTrees, bh.ID.Str())
						if !reach[bh.ID] {
							r.Fail("exact", "unreachable-tree-reported", "FindUsedBlobs reports tree %v which is not reachable", bh.ID.Str())
						}
					} else {
						gotData = append(gotData, bh.ID.Str())
						if !wantData[bh.ID] {
							r.Fail("exact", "unreachable-data-reported", "FindUsedBlobs reports data blob %v which is not reachable", bh.ID.Str())
						}
					}
				}
				if len(gotTrees) != len(reach) || len(gotData) != len(wantData) {
					sort.Strings(gotTrees)
					r.Fail("exact", "reachable-missed", "FindUsedBlobs found %d trees / %d data blobs, reachable are %d / %d", len(gotTrees), len(gotData), len(reach), len(wantData))
				}
				for id, n := range ld.loads {
					if n > 1 {
						r.Fail("once", "tree-loaded-twice", "tree %v was loaded %d times", id.Str(), n)
					}
					if !reach[id] {
						r.Fail("exact", "unreachable-tree-loaded", "tree %v is not reachable but was loaded", id.Str())
					}
				}
			}
			// 1b. the caller cancels its context somewhere in the middle: an error, or the complete result
			if !damagedReachable && cancelAt > 0 {
				used3 := restic.NewBlobSet()
				ctx3, cancel3 := context.WithCancel(context.Background())
				var err3 error
				s.Go("canceller", nil, func() {
					for i := 0; i < cancelAt; i++ {
						simrt.Park("ctl", "before-cancel", nil)
					}
					s.Count("fault:context-cancelled")
					cancel3()
				})
				s.Do("find-cancelled", nil, func() {
					err3 = FindUsedBlobs(ctx3, ld, roots, used3, restic.NoopCounter)
				})
				cancel3()
				if s.Panic != "" {
					r.Fail("panic", "panic", "%s", s.Panic)
					return
				}
				if err3 == nil {
					nt, nd := 0, 0
					for bh := range used3 {
						if bh.Type == restic.TreeBlob {
							nt++
						} else {
							nd++
						}
					}
					if nt != len(reach) || nd != len(wantData) {
						r.Fail("cancel", "partial-result-without-error", "the context was cancelled during the traversal: FindUsedBlobs returned nil with %d trees / %d data blobs, reachable are %d / %d", nt, nd, len(reach), len(wantData))
					}
				} else {
					r.Count("cancelled_with_error", 1)
				}
			}
			// 2. StreamTrees with an explicit process-once check
			ld.loads = map[restic.ID]int{}
			seen := map[restic.ID]bool{}
			processed := map[restic.ID]int{}
			var pmu sync.Mutex
			var err2 error
			s.Do("stream", nil, func() {
				err2 = StreamTrees(context.Background(), ld, roots, restic.NoopCounter, func(id restic.ID) bool {
					was := seen[id]
					seen[id] = true
					return was
				}, func(id restic.ID, lerr error, nodes TreeNodeIterator) error {
					pmu.Lock()
					processed[id]++
					pmu.Unlock()
					if lerr != nil {
						return lerr
					}
					for item := range nodes {
						if item.Error != nil {
							return item.Error
						}
					}
					return nil
				})
			})
			if s.Panic != "" {
				r.Fail("panic", "panic", "%s", s.Panic)
				return
			}
			if s.Deadlock != "" {
				r.Fail("liveness", "deadlock", "StreamTrees never finished:\n%s", s.Deadlock)
				return
			}
			for id, n := range processed {
				if n > 1 {
					r.Fail("once", "tree-processed-twice", "StreamTrees processed tree %v %d times", id.Str(), n)
				}
			}
			if !damagedReachable {
				if err2 != nil {
					r.Fail("error", "error-without-damage", "StreamTrees failed on an intact DAG: %v", err2)
				} else if len(processed) != len(reach) {
					r.Fail("exact", "reachable-missed", "StreamTrees processed %d trees, %d are reachable", len(processed), len(reach))
				}
			} else if err2 == nil {
				r.Fail("error", "damage-not-reported", "a reachable tree is missing/undecodable but StreamTrees returned nil")
			}
		})
	})
}
