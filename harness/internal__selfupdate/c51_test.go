package selfupdate

import (
	"bytes"
	"compress/bzip2"
	"context"
	"crypto/sha256"
	"encoding/hex"
	"encoding/json"
	"fmt"
	"io"
	"net/http"
	"os"
	"path/filepath"
	"runtime"
	"strings"
	"sync"
	"testing"
	"time"

	"github.com/restic/restic/internal/verif/hx"
	"github.com/restic/restic/internal/verif/simrt"
	"golang.org/x/crypto/openpgp"
	"golang.org/x/crypto/openpgp/armor"
)

// a small bzip2 archive (800 bytes of shell script)
const c51ArchiveHex = "425a68393141592653595c217e2d00004fd98000106801c0203a619ca0200090281a686464c40a5520323d41a6d4ec4c1324c13e9324d89dc9826a4f04dc982609d49c89cc9e89d09b93726c4fc4ec4e09f0992644d44d89c134264982609b13427927f1772453850905c217e2d0"

// a second valid bzip2 archive with other content (775 bytes): "the attacker's binary"
const c51EvilHex = "425a683931415926535989914a3500004ad18000106800ba699c20200070534c8c4c4c40a552064d30ca662de2ea2ee2d62f716b1771662d22fb16f16917517116b1622cc588b08b48b28b116d16d16f1711788bb8bf8bb9229c284844c8a51a80"

var (
	c51Once    sync.Once
	c51Signer  *openpgp.Entity
	c51Foreign *openpgp.Entity
	c51Pub     []byte
)

func c51Keys() {
	c51Once.Do(func() {
		var err error
		c51Signer, err = openpgp.NewEntity("verif release key", "", "verif@example.invalid", nil)
		if err != nil {
			panic(err)
		}
		c51Foreign, err = openpgp.NewEntity("somebody else", "", "other@example.invalid", nil)
		if err != nil {
			panic(err)
		}
		var buf bytes.Buffer
		w, _ := armor.Encode(&buf, openpgp.PublicKeyType, nil)
		_ = c51Signer.Serialize(w)
		_ = w.Close()
		c51Pub = buf.Bytes()
	})
}

func c51Sign(e *openpgp.Entity, data []byte) []byte {
	var buf bytes.Buffer
	if err := openpgp.ArmoredDetachSign(&buf, e, bytes.NewReader(data), nil); err != nil {
		panic(err)
	}
	return buf.Bytes()
}

type c51Transport struct {
	// later, if set for a URL, is served from the second request for that URL on
	later map[string][]byte
	hits  map[string]int
	files  map[string][]byte
	status map[string]int
	delay  map[string]time.Duration
	cut    map[string]int // body ends with an error after this many bytes
}

type c51Body struct {
	data []byte
	cut  int
	off  int
}

func (b *c51Body) Read(p []byte) (int, error) {
	if b.cut >= 0 && b.off >= b.cut {
		return 0, fmt.Errorf("connection reset by peer")
	}
	if b.off >= len(b.data) {
		return 0, io.EOF
	}
	end := len(b.data)
	if b.cut >= 0 && b.cut < end {
		end = b.cut
	}
	n := copy(p, b.data[b.off:end])
	b.off += n
	return n, nil
}
func (b *c51Body) Close() error { return nil }

func (t *c51Transport) RoundTrip(req *http.Request) (*http.Response, error) {
	u := req.URL.String()
	simrt.Park("http", u, nil)
	if d := t.delay[u]; d > 0 {
		tm := time.NewTimer(d)
		select {
		case <-tm.C:
		case <-req.Context().Done():
			tm.Stop()
			return nil, req.Context().Err()
		}
	}
	st := http.StatusOK
	if s, ok := t.status[u]; ok {
		st = s
	}
	data, ok := t.files[u]
	if !ok {
		st = http.StatusNotFound
	}
	t.hits[u]++
	if l, ok := t.later[u]; ok && t.hits[u] > 1 {
		data = l
	}
	cut := -1
	if c, ok := t.cut[u]; ok {
		cut = c
	}
	return &http.Response{StatusCode: st, Status: http.StatusText(st), Header: http.Header{}, Body: &c51Body{data: data, cut: cut}, Request: req}, nil
}

// TestVerifC51: self-update installs only a signed, hash-matching binary. An
// in-memory "GitHub" behind http.DefaultClient serves the release JSON, the
// checksum file, its signature and the archive, with generated tampering and
// transport faults. The embedded release key is swapped for a key pair made in
// the harness (so valid signatures can be produced).
func TestVerifC51(t *testing.T) {
	c51Keys()
	archive, _ := hex.DecodeString(c51ArchiveHex)
	plain, err := io.ReadAll(bzip2.NewReader(bytes.NewReader(archive)))
	if err != nil {
		t.Fatal(err)
	}
	hx.Main(t, "C51", func(r *hx.Rec) {
		tp := r.Tape
		s := simrt.New(tp)
		r.Sim = s
		if hx.KeepAllEvents {
			s.KeepEvents = -1
		}
		name := fmt.Sprintf("restic_0.99.0_%s_%s.bz2", runtime.GOOS, runtime.GOARCH)
		otherName := "restic_0.99.0_plan9_mips.bz2"
		const base = "https://example.invalid/assets/"
		// honest release
		servedArchive := append([]byte(nil), archive...)
		sumLine := func(data []byte, n string) string {
			h := sha256.Sum256(data)
			return hex.EncodeToString(h[:]) + "  " + n + "\n"
		}
		otherArchive := append([]byte("BZh9 other"), archive...)
		sums := sumLine(otherArchive, otherName) + sumLine(archive, name)
		signed := sums
		var desc []string
		nTamper := []int{0, 1, 1, 1, 2}[tp.Choose(5)]
		sigKind := "valid"
		tr := &c51Transport{files: map[string][]byte{}, status: map[string]int{}, delay: map[string]time.Duration{}, cut: map[string]int{}, later: map[string][]byte{}, hits: map[string]int{}}
		evil, _ := hex.DecodeString(c51EvilHex)
		var laterSums, laterArchive []byte // what the server switches to from the second request on
		assets := []Asset{{ID: 1, Name: "SHA256SUMS", URL: base + "sums"}, {ID: 2, Name: "SHA256SUMS.asc", URL: base + "sig"}, {ID: 3, Name: otherName, URL: base + "other"}, {ID: 4, Name: name, URL: base + "archive"}}
		for i := 0; i < nTamper; i++ {
			switch tp.Choose(16) {
			case 14:
				// the server changes its answers between requests: first a tampered archive, from the second
				// request on the attacker's archive and a checksum file (unsigned) that lists its hash
				if len(servedArchive) == 0 {
					continue
				}
				servedArchive[len(servedArchive)/2] ^= 0x10
				laterArchive = evil
				laterSums = []byte(sumLine(otherArchive, otherName) + sumLine(evil, name))
				desc = append(desc, "answers change on the second request: forged checksum file and attacker archive")
			case 15:
				// only the archive changes on the second request (the signed checksum file stays)
				if len(servedArchive) == 0 {
					continue
				}
				servedArchive[len(servedArchive)/2] ^= 0x10
				laterArchive = evil
				desc = append(desc, "archive replaced by the attacker's on the second request")
			case 0:
				if len(servedArchive) == 0 {
					continue
				}
				servedArchive[tp.Choose(len(servedArchive))] ^= byte(1 << tp.Choose(8))
				desc = append(desc, "archive bit flipped")
			case 1:
				servedArchive = servedArchive[:tp.Choose(len(servedArchive)+1)/2]
				desc = append(desc, "archive truncated")
			case 2:
				servedArchive = otherArchive
				desc = append(desc, "archive swapped with another asset")
			case 3:
				sigKind = "foreign"
				desc = append(desc, "signature by a foreign key")
			case 4:
				sigKind = "missing"
				desc = append(desc, "signature asset missing")
			case 5:
				sigKind = "garbage"
				desc = append(desc, "signature is garbage")
			case 6:
				// checksum file changed after signing: the line for our file now names the tampered archive
				servedArchive = append([]byte{0x01}, servedArchive...)
				sums = sumLine(otherArchive, otherName) + sumLine(servedArchive, name)
				desc = append(desc, "archive tampered and checksum line adjusted after signing")
			case 7:
				// signed checksum file whose entry for our name is for other content (stale file)
				sums = sumLine(otherArchive, otherName) + sumLine([]byte("old release"), name)
				signed = sums
				desc = append(desc, "signed checksum file lists another hash for the file")
			case 8:
				// two entries for the same name, the first one wrong
				sums = sumLine([]byte("x"), name) + sumLine(archive, name)
				signed = sums
				desc = append(desc, "two signed entries for the name, first one wrong")
			case 9:
				// malformed lines plus a valid one
				sums = "garbage\n" + strings.Repeat("z", 64) + "  " + name + "\n" + sumLine(archive, name)
				signed = sums
				desc = append(desc, "malformed (non-hex) signed entry before the valid one")
			case 10:
				tr.status[base+[]string{"sums", "sig", "archive"}[tp.Choose(3)]] = []int{403, 404, 500, 502}[tp.Choose(4)]
				desc = append(desc, "HTTP error for one asset")
			case 11:
				u := base + []string{"sums", "sig", "archive"}[tp.Choose(3)]
				tr.cut[u] = tp.Choose(40)
				desc = append(desc, "connection broken while downloading "+u)
			case 12:
				tr.delay["https://api.github.com/repos/restic/restic/releases/latest"] = time.Duration(tp.Choose(120)) * time.Second
				desc = append(desc, "slow release API")
			case 13:
				// an entry whose name merely ends with our file name
				sums = sumLine(servedArchive, "evil/"+name) + sumLine([]byte("y"), name)
				signed = sums
				desc = append(desc, "signed entry for a different path ending in the name, plus a wrong entry for the name")
			}
		}
		var sig []byte
		switch sigKind {
		case "valid":
			sig = c51Sign(c51Signer, []byte(signed))
		case "foreign":
			sig = c51Sign(c51Foreign, []byte(sums))
		case "garbage":
			sig = []byte("-----BEGIN PGP SIGNATURE-----\n\nAAAA\n-----END PGP SIGNATURE-----\n")
		}
		if sigKind == "missing" {
			assets = append(assets[:1], assets[2:]...)
		}
		rel, _ := json.Marshal(Release{TagName: "v0.99.0", Name: "restic 0.99.0", Assets: assets})
		tr.files["https://api.github.com/repos/restic/restic/releases/latest"] = rel
		tr.files[base+"sums"] = []byte(sums)
		tr.files[base+"sig"] = sig
		tr.files[base+"other"] = otherArchive
		tr.files[base+"archive"] = servedArchive
		if laterSums != nil {
			tr.later[base+"sums"] = laterSums
		}
		if laterArchive != nil {
			tr.later[base+"archive"] = laterArchive
		}
		for _, d := range desc {
			if i := strings.Index(d, " while downloading"); i >= 0 {
				d = d[:i]
			}
			s.Count("fault:" + strings.ReplaceAll(d, " ", "-"))
		}
		r.Set("tampering", fmt.Sprint(desc))
		r.CaseKey = fmt.Sprint(desc, sigKind)
		r.Nontriv = true
		// the independent verdict: may the binary be replaced?
		sigOK := sigKind == "valid" && signed == sums
		hashOK := false
		for _, line := range strings.Split(sums, "\n") {
			parts := strings.Split(line, "  ")
			if len(parts) == 2 && parts[1] == name {
				h := sha256.Sum256(servedArchive)
				hashOK = parts[0] == hex.EncodeToString(h[:])
				break // the first entry for that exact name decides
			}
		}
		mayReplace := sigOK && hashOK
		simrt.Run(r.T, s, 60*time.Second, func() {
			dir, err := os.MkdirTemp("", "verif-c51-")
			if err != nil {
				r.Abort = err.Error()
				return
			}
			defer os.RemoveAll(dir)
			target := filepath.Join(dir, "restic")
			old := []byte("old restic binary")
			_ = os.WriteFile(target, old, 0o755)
			oldKey, oldTr := key, http.DefaultClient.Transport
			key = c51Pub
			http.DefaultClient.Transport = tr
			defer func() { key, http.DefaultClient.Transport = oldKey, oldTr }()
			var uerr error
			s.Do("update", nil, func() {
				_, uerr = DownloadLatestStableRelease(context.Background(), target, "0.1.0", nil)
			})
			r.SimTime = s.Elapsed()
			if s.Panic != "" {
				r.Fail("panic", "panic", "%s", s.Panic)
				return
			}
			now, rerr := os.ReadFile(target)
			if rerr != nil {
				r.Fail("binary", "binary-gone", "tampering %v: the binary is gone after self-update (%v)", desc, rerr)
				return
			}
			changed := !bytes.Equal(now, old)
			if changed && !mayReplace {
				r.Fail("binary", "unverified-binary-installed", "tampering %v (signature ok: %v, hash ok: %v): the binary was replaced (update error: %v)", desc, sigOK, hashOK, uerr)
			}
			if changed && !bytes.Equal(now, plain) && mayReplace {
				r.Fail("binary", "wrong-binary-installed", "the installed binary (%d bytes) is not the decompressed archive (%d bytes)", len(now), len(plain))
			}
			if !changed && uerr == nil {
				r.Fail("binary", "success-without-install", "tampering %v: self-update reported success but the binary is unchanged", desc)
			}
			if mayReplace && len(desc) == 0 && !changed {
				r.Fail("binary", "honest-release-rejected", "an untampered, correctly signed release was not installed: %v", uerr)
			}
			if changed {
				r.Count("installed", 1)
			} else {
				r.Count("refused", 1)
			}
			ents, _ := os.ReadDir(dir)
			if len(ents) != 1 {
				r.Count("temp_files_left", len(ents)-1)
			}
		})
	})
}
