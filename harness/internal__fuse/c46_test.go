//go:build darwin || freebsd || linux

package fuse

import (
	"bytes"
	"context"
	"fmt"
	"sync"
	"testing"
	"time"

	"github.com/anacrolix/fuse"
	"github.com/restic/restic/internal/bloblru"
	"github.com/restic/restic/internal/data"
	"github.com/restic/restic/internal/restic"
	"github.com/restic/restic/internal/verif/hx"
	"github.com/restic/restic/internal/verif/simrt"
)

type c46Repo struct {
	restic.Repository
	blobs map[restic.ID][]byte
	mu    sync.Mutex
	loads int
}

func (s *c46Repo) LookupBlobSize(bh restic.BlobHandle) (uint, bool) {
	b, ok := s.blobs[bh.ID]
	return uint(len(b)), ok
}

func (s *c46Repo) LoadBlob(ctx context.Context, bh restic.BlobHandle, buf []byte) ([]byte, error) {
	simrt.Park("load", bh.ID.Str(), nil)
	s.mu.Lock()
	s.loads++
	s.mu.Unlock()
	b, ok := s.blobs[bh.ID]
	if !ok {
		return nil, fmt.Errorf("blob %v not found", bh.ID.Str())
	}
	// like the real LoadBlob: a caller-supplied buffer that is large enough is decoded into
	if cap(buf) >= len(b) && cap(buf) > 0 {
		out := buf[:len(b)]
		copy(out, b)
		simrt.Park("load", "decoded "+bh.ID.Str(), nil)
		return out, nil
	}
	return append([]byte(nil), b...), nil
}

// TestVerifC46: reading a mounted file returns exactly the requested byte
// range. The real fuse file/openFile code over a stub repository whose blob
// loads complete in scheduled order, a blob cache small enough to evict, files
// with generated blob layouts (including empty blobs and repeated blobs),
// several concurrent readers issuing (offset, size) pairs around every blob
// boundary and past the end.
func TestVerifC46(t *testing.T) {
	hx.Main(t, "C46", func(r *hx.Rec) {
		tp := r.Tape
		s := simrt.New(tp)
		r.Sim = s
		if hx.KeepAllEvents {
			s.KeepEvents = -1
		}
		s.YieldMutex = tp.Choose(2) == 0
		st := tp.Stream()
		repo := &c46Repo{blobs: map[restic.ID][]byte{}}
		nBlobs := tp.Range(0, 7)
		var content restic.IDs
		var full []byte
		var bounds []int
		var pool restic.IDs
		for i := 0; i < nBlobs; i++ {
			var id restic.ID
			if len(pool) > 0 && tp.Choose(4) == 0 {
				id = pool[tp.Choose(len(pool))]
			} else {
				sz := []int{0, 1, 5, 100, 4096, 70000}[tp.Choose(6)]
				b := make([]byte, sz)
				st.Fill(b)
				id = restic.Hash(append([]byte{byte(i)}, b...))
				repo.blobs[id] = b
				pool = append(pool, id)
			}
			content = append(content, id)
			bounds = append(bounds, len(full))
			full = append(full, repo.blobs[id]...)
		}
		bounds = append(bounds, len(full))
		cacheSize := []int{200, 5000, 80000, 64 << 20}[tp.Choose(4)]
		nReaders := tp.Range(1, 4)
		type rd struct{ off, size int }
		plans := make([][]rd, nReaders)
		for i := range plans {
			n := tp.Range(1, 6)
			for k := 0; k < n; k++ {
				b := bounds[tp.Choose(len(bounds))]
				off := b + tp.Choose(5) - 2
				if off < 0 {
					off = 0
				}
				if tp.Choose(6) == 0 {
					off = len(full) + tp.Choose(3)
				}
				size := []int{0, 1, 2, 100, 4096, 5000, 131072}[tp.Choose(7)]
				plans[i] = append(plans[i], rd{off, size})
			}
		}
		r.Set("blob_bounds", fmt.Sprint(bounds))
		r.Set("cache_size", cacheSize)
		r.Set("plans", fmt.Sprint(plans))
		simrt.Run(r.T, s, 60*time.Second, func() {
			root := &Root{repo: repo, blobCache: bloblru.New(cacheSize)}
			node := &data.Node{Name: "f", Type: data.NodeTypeFile, Content: content, Size: uint64(len(full))}
			if tp.Choose(5) == 0 {
				node.Size = uint64(len(full) + 7) // a wrong recorded size must not matter
			}
			f, err := newFile(root, func() {}, 10, node)
			if err != nil {
				r.Abort = err.Error()
				return
			}
			if tp.Choose(3) == 0 {
				// an Open that is interrupted (FUSE interrupt): it fails, later opens must be unaffected
				cctx, cancel := context.WithCancel(context.Background())
				cancel()
				if _, err := f.Open(cctx, nil, nil); err == nil && len(content) > 0 {
					r.Count("interrupted_open_succeeded", 1)
				}
				s.Count("fault:open-interrupted")
			}
			for i := range plans {
				i := i
				s.Go(fmt.Sprintf("reader%d", i), nil, func() {
					h, err := f.Open(context.Background(), nil, nil)
					if err != nil {
						r.Fail("open", "open-failed", "Open failed: %v", err)
						return
					}
					of := h.(*openFile)
					for _, p := range plans[i] {
						req := &fuse.ReadRequest{Offset: int64(p.off), Size: p.size}
						resp := &fuse.ReadResponse{Data: make([]byte, p.size)}
						if err := of.Read(context.Background(), req, resp); err != nil {
							r.Fail("read", "read-failed", "Read(offset %d, size %d) failed: %v", p.off, p.size, err)
							return
						}
						var want []byte
						if p.off < len(full) {
							end := p.off + p.size
							if end > len(full) {
								end = len(full)
							}
							want = full[p.off:end]
						}
						if !bytes.Equal(resp.Data, want) {
							r.Fail("range", "wrong-range", "Read(offset %d, size %d) of a %d byte file with blob boundaries %v returned %d bytes, want %d (first difference at %d)", p.off, p.size, len(full), bounds, len(resp.Data), len(want), firstDiff(resp.Data, want))
							return
						}
					}
				})
			}
			s.Loop()
			r.SimTime = s.Elapsed()
			if s.Panic != "" {
				r.Fail("panic", "panic", "%s", s.Panic)
			}
			if s.Deadlock != "" {
				r.Fail("liveness", "deadlock", "reads never finished:\n%s", s.Deadlock)
			}
			r.Count("blob_loads", repo.loads)
		})
	})
}

func firstDiff(a, b []byte) int {
	for i := 0; i < len(a) && i < len(b); i++ {
		if a[i] != b[i] {
			return i
		}
	}
	if len(a) < len(b) {
		return len(a)
	}
	return len(b)
}
