package retry

import (
	"bytes"
	"context"
	"fmt"
	"io"
	"sort"
	"testing"
	"time"

	"github.com/restic/restic/internal/backend"
	"github.com/restic/restic/internal/feature"
	"github.com/restic/restic/internal/verif/hx"
	"github.com/restic/restic/internal/verif/simbe"
	"github.com/restic/restic/internal/verif/simrt"
)

// TestVerifC35: the real retry.Backend (real back-off on the simulated clock,
// 15 minute budget) over the simulated store, with per-attempt faults from the
// tape: fail before the effect, fail after the effect, torn file left behind
// (non-atomic stores), partial and corrupt reads, listings failing midway or
// reporting an entry twice, permanent errors, delays, within and beyond the
// retry budget.
func TestVerifC35(t *testing.T) {
	hx.Main(t, "C35", func(r *hx.Rec) {
		tp := r.Tape
		s := simrt.New(tp)
		r.Sim = s
		if hx.KeepAllEvents {
			s.KeepEvents = -1
		}
		atomic := tp.Choose(2) == 0
		flaky := tp.Choose(4) == 0
		redesign := tp.Choose(3) != 0
		nOps := tp.Range(1, 6)
		budget := []int{0, 1, 2, 4, 8, -1}[tp.Choose(6)] // -1: faults never stop
		rate := []int{150, 400, 800}[tp.Choose(3)]
		r.Set("atomic_replace", atomic)
		r.Set("flaky_errors", flaky)
		r.Set("backend_error_redesign", redesign)
		r.Set("fault_budget", budget)
		r.Set("fault_permille", rate)
		simrt.Run(r.T, s, 60*time.Second, func() {
			defer feature.TestSetFlag(r.T, feature.Flag, feature.BackendErrorRedesign, redesign)()
			store := simbe.NewStore(s)
			cl := store.NewClient(s.NewProc("p", 1, "h"), 4, atomic)
			cl.Props.HasFlakyErrors = flaky
			// some existing files
			content := map[backend.Handle][]byte{}
			st := tp.Stream()
			for i := 0; i < 4; i++ {
				h := backend.Handle{Type: backend.PackFile, Name: fmt.Sprintf("exist%d", i)}
				b := make([]byte, []int{0, 1, 100, 3000}[i])
				st.Fill(b)
				store.Put(h, b)
				content[h] = b
			}
			cl.F = simbe.Faults{ErrBefore: rate / 3, ErrAfter: rate / 3, PartialRead: rate / 3, CorruptRead: 0, ListFail: rate / 2, ListDup: rate / 2, Delay: 100, MaxDelay: 40 * time.Second, Budget: budget}
			if !atomic {
				cl.F.Torn = rate / 3
			}
			attempts := map[string]int{}
			// per file: was a clean-up Remove attempted after the last torn write?
			tornPending := map[string]bool{}
			store.OnArrive = append(store.OnArrive, func(c *simbe.Client, op string, h backend.Handle) {
				attempts[op+" "+h.Name]++
				if op == "Remove" {
					tornPending[h.Name] = false
				}
			})
			store.OnMutation = append(store.OnMutation, func(m simbe.Mutation, _ []byte) {
				if m.Op == "torn" {
					tornPending[m.H.Name] = true
				}
			})
			be := New(cl, 15*time.Minute, nil, nil)
			ctx := context.Background()
			type opd struct {
				kind string
				h    backend.Handle
			}
			var ops []opd
			for i := 0; i < nOps; i++ {
				switch tp.Choose(7) {
				case 0, 1:
					ops = append(ops, opd{"save", backend.Handle{Type: backend.PackFile, Name: fmt.Sprintf("new%d", i)}})
				case 2:
					ops = append(ops, opd{"load", backend.Handle{Type: backend.PackFile, Name: fmt.Sprintf("exist%d", tp.Choose(4))}})
				case 3:
					ops = append(ops, opd{"list", backend.Handle{Type: backend.PackFile}})
				case 4:
					ops = append(ops, opd{"remove", backend.Handle{Type: backend.PackFile, Name: fmt.Sprintf("exist%d", tp.Choose(4))}})
				case 5:
					ops = append(ops, opd{"load-missing", backend.Handle{Type: backend.PackFile, Name: "missing"}})
				case 6:
					ops = append(ops, opd{"stat", backend.Handle{Type: backend.PackFile, Name: fmt.Sprintf("exist%d", tp.Choose(4))}})
				}
			}
			r.Set("ops", fmt.Sprint(ops))
			s.Do("client", nil, func() {
				for i, o := range ops {
					fired0 := faultCount(s)
					start := time.Now()
					for k := range attempts {
						delete(attempts, k)
					}
					// once faults stop (small finite budget) a retried operation must complete
					mustSucceed := budget >= 0 && budget <= 4
					switch o.kind {
					case "save":
						data := make([]byte, []int{0, 1, 500, 20000}[i%4])
						st.Fill(data)
						err := be.Save(ctx, o.h, backend.NewByteReader(data, cl.Hasher()))
						got := store.Get(o.h)
						// the clean-up of a torn file is itself a backend operation: if a Remove was attempted
						// after the last torn write and was made to fail as well, nothing can take the partial
						// file away again; if no Remove was even attempted, the partial file is restic's doing
						cleanupSabotaged := !tornPending[o.h.Name]
						if err == nil {
							if got == nil || !bytes.Equal(got, data) {
								r.Fail("save", "save-ok-but-wrong", "op %d: Save returned nil but the stored file is %d bytes, want the %d bytes saved", i, len(got), len(data))
							}
							content[o.h] = data
						} else if got != nil && !bytes.Equal(got, data) && cleanupSabotaged {
							r.Count("partial_left_because_cleanup_failed", 1)
						} else if got != nil && !bytes.Equal(got, data) {
							r.Fail("save", "partial-file-left", "op %d: Save failed (%v) and left a partial file of %d bytes (of %d) under the final name", i, err, len(got), len(data))
						} else if got != nil {
							content[o.h] = data
						}
						if err != nil && (faultCount(s) == fired0 || mustSucceed) {
							r.Fail("save", "error-although-faults-stopped", "op %d: Save failed although at most %d faults were injected in the whole run (%d during this call): %v", i, budget, faultCount(s)-fired0, err)
						}
					case "load", "load-missing":
						want, exists := content[o.h]
						var last []byte
						calls := 0
						err := be.Load(ctx, o.h, 0, 0, func(rd io.Reader) error {
							calls++
							b, err := io.ReadAll(rd)
							last = b
							return err
						})
						if err == nil {
							if !exists {
								r.Fail("load", "load-of-missing-ok", "op %d: Load of a missing file succeeded", i)
							} else if !bytes.Equal(last, want) {
								r.Fail("load", "wrong-bytes", "op %d: Load returned nil but the consumer got %d bytes, the file has %d", i, len(last), len(want))
							}
						} else if exists && (faultCount(s) == fired0 || mustSucceed) {
							r.Fail("load", "error-although-faults-stopped", "op %d: Load of an existing file failed although at most %d faults were injected in the whole run: %v", i, budget, err)
						}
						if !exists && redesign {
							n := attempts["Load "+o.h.Name]
							max := 1
							if flaky {
								max = 5
							}
							// injected transient errors before the permanent one are retried; count only runs without other faults
							if faultCount(s) == fired0 && n != max {
								r.Fail("permanent", "permanent-error-retried", "op %d: a permanent error (file does not exist) was attempted %d times, want %d", i, n, max)
							}
							attempts["Load "+o.h.Name] = 0
						}
					case "stat":
						want, exists := content[o.h]
						fi, err := be.Stat(ctx, o.h)
						if err == nil && (!exists || fi.Size != int64(len(want))) {
							r.Fail("stat", "wrong-stat", "op %d: Stat returned size %d, file exists=%v with %d bytes", i, fi.Size, exists, len(want))
						}
						if err != nil && exists && faultCount(s) == fired0 {
							r.Fail("stat", "error-without-fault", "op %d: Stat failed without an injected fault: %v", i, err)
						}
					case "remove":
						_, exists := content[o.h]
						err := be.Remove(ctx, o.h)
						gone := store.Get(o.h) == nil
						if err == nil && !gone {
							r.Fail("remove", "remove-ok-but-present", "op %d: Remove returned nil but the file is still there", i)
						}
						if gone {
							delete(content, o.h)
						}
						if err != nil && exists && faultCount(s) == fired0 {
							r.Fail("remove", "error-without-fault", "op %d: Remove failed without an injected fault: %v", i, err)
						}
					case "list":
						seen := map[string]int{}
						err := be.List(ctx, backend.PackFile, func(fi backend.FileInfo) error {
							seen[fi.Name]++
							return nil
						})
						for n, c := range seen {
							if c > 1 {
								r.Fail("list", "listed-twice", "op %d: List reported %s %d times", i, n, c)
							}
						}
						if err == nil {
							var got []string
							want := store.Names(backend.PackFile)
							for n := range seen {
								got = append(got, n)
							}
							sort.Strings(want)
							sort.Strings(got)
							if fmt.Sprint(want) != fmt.Sprint(got) {
								r.Fail("list", "wrong-listing", "op %d: List returned nil with %v, the store holds %v", i, got, want)
							}
						} else if faultCount(s) == fired0 || mustSucceed {
							r.Fail("list", "error-although-faults-stopped", "op %d: List failed although at most %d faults were injected in the whole run: %v", i, budget, err)
						}
					}
					_ = fired0
					// bounded liveness: with a finite fault budget no operation may take longer than the retry budget plus slack
					if el := time.Since(start); el > 15*time.Minute+10*time.Minute {
						r.Fail("liveness", "took-too-long", "op %d (%s) took %v of simulated time", i, o.kind, el)
					}
				}
			})
			r.SimTime = s.Elapsed()
			if s.Panic != "" {
				r.Fail("panic", "panic", "%s", s.Panic)
			}
			if s.Deadlock != "" {
				r.Fail("liveness", "deadlock", "retry never finished\n%s", s.Deadlock)
			}
			// after all operations, files the model knows must be intact
			for h, want := range content {
				if got := store.Get(h); !bytes.Equal(got, want) {
					r.Fail("save", "content-changed", "file %s has %d bytes at the end, want %d", h.Name, len(got), len(want))
				}
			}
		})
	})
}

func faultCount(s *simrt.Sim) int {
	n := 0
	for k, v := range s.Stats() {
		if len(k) > 6 && k[:6] == "fault:" && k != "fault:delay" {
			n += v
		}
	}
	return n
}
