package bloblru

import (
	"bytes"
	"errors"
	"fmt"
	"sync"
	"testing"
	"time"

	"github.com/restic/restic/internal/restic"
	"github.com/restic/restic/internal/verif/hx"
	"github.com/restic/restic/internal/verif/simrt"
)

// TestVerifC47: K clients call GetOrCompute on a small ID set against a small
// cache; compute parks (so other clients run while it is "downloading"), then
// succeeds with the value of that ID or fails. All mutex acquisitions are
// scheduled. Monitors at every quiescence check the byte accounting.
func TestVerifC47(t *testing.T) {
	hx.Main(t, "C47", func(r *hx.Rec) {
		tp := r.Tape
		s := simrt.New(tp)
		r.Sim = s
		if hx.KeepAllEvents {
			s.KeepEvents = -1
		}
		nIDs := tp.Range(1, 5)
		nClients := tp.Range(2, 6)
		// value sizes and caps per id
		type val struct {
			data []byte
		}
		vals := make([]val, nIDs)
		ids := make([]restic.ID, nIDs)
		total := 0
		for i := range vals {
			sz := []int{0, 1, 10, 100, 1000, 5000}[tp.Choose(6)]
			extra := []int{0, 0, 7, 512}[tp.Choose(4)]
			b := make([]byte, sz, sz+extra)
			for j := range b {
				b[j] = byte(i*31 + j)
			}
			vals[i].data = b
			ids[i] = restic.Hash([]byte(fmt.Sprintf("id-%d", i)))
			total += cap(b) + overhead
		}
		// cache size: from "nothing fits" to "everything fits"
		size := overhead + tp.Choose(total+overhead)
		type op struct{ id int }
		plans := make([][]op, nClients)
		for c := range plans {
			n := tp.Range(1, 6)
			for k := 0; k < n; k++ {
				plans[c] = append(plans[c], op{tp.Choose(nIDs)})
			}
		}
		failRate := []int{0, 100, 300}[tp.Choose(3)]
		r.Set("ids", nIDs)
		r.Set("clients", nClients)
		r.Set("cache_size", size)
		r.Set("fail_permille", failRate)
		r.Set("plans", fmt.Sprint(plans))

		res := simrt.Run(r.T, s, 60*time.Second, func() {
			c := New(size)
			errInjected := errors.New("injected compute failure")
			computing := map[int]int{}
			var cmu sync.Mutex
			check := func(where string) {
				// nobody holds c.mu at quiescence: critical sections contain no park point
				used := 0
				for _, k := range c.c.Keys() {
					b, _ := c.c.Peek(k)
					used += cap(b) + overhead
				}
				if c.free < 0 || used > c.size {
					r.Fail("budget", "over-budget", "%s: cache holds %d bytes, configured size %d, free=%d", where, used, c.size, c.free)
				}
				if used != c.size-c.free {
					r.Fail("accounting", "accounting-mismatch", "%s: entries sum to %d bytes but size-free = %d", where, used, c.size-c.free)
				}
			}
			s.AddMonitor(func() { check("quiescence") })
			for ci := range plans {
				ci := ci
				s.Go(fmt.Sprintf("c%d", ci), nil, func() {
					for k, o := range plans[ci] {
						id := o.id
						var failed bool
						var computed bool
						got, err := c.GetOrCompute(ids[id], func() ([]byte, error) {
							computed = true
							cmu.Lock()
							computing[id]++
							if computing[id] > 1 {
								r.Count("concurrent_compute_same_id", 1)
							}
							cmu.Unlock()
							simrt.Park("compute", fmt.Sprint(id), func(t *simrt.Tape) string {
								if t.Chance(failRate) {
									failed = true
									return "fail"
								}
								return ""
							})
							cmu.Lock()
							computing[id]--
							cmu.Unlock()
							if failed {
								s.Count("fault:compute-fail")
								return nil, errInjected
							}
							// a fresh copy per computation, same cap as planned
							b := make([]byte, len(vals[id].data), cap(vals[id].data))
							copy(b, vals[id].data)
							return b, nil
						})
						if computed {
							r.Count("computed", 1)
						} else {
							r.Count("served_without_compute", 1)
						}
						switch {
						case err != nil && !(computed && failed):
							r.Fail("result", "unexpected-error", "client %d op %d id %d: error %v without a failed computation of its own", ci, k, id, err)
						case err == nil && computed && failed:
							r.Fail("result", "error-swallowed", "client %d op %d id %d: own computation failed but no error returned", ci, k, id)
						case err == nil && !bytes.Equal(got, vals[id].data):
							r.Fail("result", "wrong-value", "client %d op %d id %d: got %d bytes %x..., want value of that id", ci, k, id, len(got), head(got))
						}
					}
				})
			}
			s.Loop()
			check("end")
			if len(c.inProgress) != 0 {
				r.Fail("progress", "inprogress-leak", "inProgress has %d entries after all calls returned", len(c.inProgress))
			}
			if s.Deadlock != "" {
				r.Fail("liveness", "deadlock", "deadlock: all clients blocked\n%s", s.Deadlock)
			}
			r.SimTime = s.Elapsed()
		})
		_ = res
	})
}

func head(b []byte) []byte {
	if len(b) > 8 {
		return b[:8]
	}
	return b
}
