package archiver

import (
	"bytes"
	"context"
	"fmt"
	"io"
	"sync"
	"testing"
	"time"

	"github.com/restic/chunker"
	"github.com/restic/restic/internal/data"
	"github.com/restic/restic/internal/fs"
	"github.com/restic/restic/internal/restic"
	"github.com/restic/restic/internal/verif/hk"
	"github.com/restic/restic/internal/verif/hx"
	"github.com/restic/restic/internal/verif/simfs"
	"github.com/restic/restic/internal/verif/simrt"
	"golang.org/x/sync/errgroup"
)

type c17Chunker struct {
	bc  *chunker.BaseChunker
	pol chunker.Pol
}

func (c *c17Chunker) Reset()                       { c.bc.Reset(c.pol) }
func (c *c17Chunker) NextSplitPoint(b []byte) int { return c.bc.NextSplitPoint(b) }

type c17Factory struct{ pol chunker.Pol }

func (f c17Factory) NewChunker() restic.Chunker { return &c17Chunker{bc: chunker.NewBase(f.pol), pol: f.pol} }
func (f c17Factory) MaxChunkSize() int          { return chunker.MaxSize }
func (f c17Factory) ZeroChunk() restic.ID       { return restic.Hash(make([]byte, chunker.MinSize)) }

// c17Saver records the chunks of every file in submission order and calls back from another goroutine.
type c17Saver struct {
	mu     sync.Mutex
	chunks [][]byte
	byID   map[restic.ID][]byte
}

func (s *c17Saver) SaveBlobAsync(_ context.Context, _ restic.BlobType, buf []byte, _ restic.ID, _ bool, cb func(restic.ID, bool, int, error)) {
	cp := append([]byte(nil), buf...)
	s.mu.Lock()
	s.chunks = append(s.chunks, cp)
	id := restic.Hash(cp)
	if s.byID == nil {
		s.byID = map[restic.ID][]byte{}
	}
	s.byID[id] = cp
	s.mu.Unlock()
	go simrt.Wrap(func() { cb(id, false, len(cp), nil) })()
}

// TestVerifC17: content-defined chunking is lossless, bounded and independent
// of the read pattern and of previously processed files. The real fileSaver
// with one worker processes a sequence of simulated files whose Read returns
// scheduler-chosen short reads; the chunks are compared with a reference
// chunking of the same content by the chunker library's own streaming Chunker
// with full reads and a fresh state.
func TestVerifC17(t *testing.T) {
	hx.Main(t, "C17", func(r *hx.Rec) {
		tp := r.Tape
		s := simrt.New(tp)
		r.Sim = s
		if hx.KeepAllEvents {
			s.KeepEvents = -1
		}
		s.YieldMutex = false
		pol := []chunker.Pol{0x3DA3358B4DC173, 0x2FE5C4ABDF5C95, 0x3B3C6F4E6A1E0F}[tp.Choose(3)]
		if !pol.Irreducible() {
			pol = 0x3DA3358B4DC173
		}
		st := tp.Stream()
		nFiles := tp.Range(1, 4)
		short := []int{0, 1, 7, 4096, chunkReadBufSize - 1, chunkReadBufSize + 1, 3 * chunkReadBufSize}[tp.Choose(7)]
		var contents [][]byte
		var sizes []int
		huge := tp.Choose(40) == 0
		for i := 0; i < nFiles; i++ {
			sz := []int{0, 1, chunker.MinSize - 1, chunker.MinSize, chunker.MinSize + 1, chunkReadBufSize * 3 / 2, 3 << 20, 2<<20 + 12345}[tp.Choose(8)]
			kind := tp.Choose(3)
			if huge && i == 0 {
				sz, kind = 9<<20+777, 1 // all zeros: only the maximum chunk size splits it
			}
			contents = append(contents, hk.Content(st, sz, kind))
			sizes = append(sizes, sz)
		}
		r.Set("file_sizes", fmt.Sprint(sizes))
		eofWithData := tp.Choose(3) == 0
		// some files fail with a read error somewhere in the middle; the saver goes on with the next file
		failAt := make([]int, nFiles)
		if tp.Choose(3) == 0 {
			for i := range failAt {
				if sizes[i] > 1 && tp.Choose(2) == 0 {
					failAt[i] = []int{1, sizes[i] / 2, sizes[i] - 1, chunkReadBufSize, chunkReadBufSize + 4711}[tp.Choose(5)]
					if failAt[i] >= sizes[i] || failAt[i] < 1 {
						failAt[i] = sizes[i] / 2
					}
				}
			}
		}
		// two workers with all files submitted at once, and files whose Close fails after a complete read
		concurrent := tp.Choose(3) == 0
		failClose := make([]bool, nFiles)
		if tp.Choose(3) == 0 {
			for i := range failClose {
				failClose[i] = failAt[i] == 0 && tp.Choose(3) == 0
			}
		}
		if concurrent && nFiles >= 3 && failAt[0] == 0 && tp.Choose(2) == 0 {
			failClose[0] = true // the first file fails at Close, the others are then read side by side
		}
		r.Set("read_error_at", fmt.Sprint(failAt))
		r.Set("two_workers", concurrent)
		r.Set("close_fails", fmt.Sprint(failClose))
		r.Set("max_short_read", short)
		r.Set("eof_with_data", eofWithData)
		r.CaseKey = fmt.Sprint(sizes, short, pol, eofWithData, failAt, concurrent, failClose)
		simrt.Run(r.T, s, 120*time.Second, func() {
			root := &simfs.Node{Name: "src", Mode: 0o755 | (1 << 31)}
			for i, c := range contents {
				root.Add(&simfs.Node{Name: fmt.Sprintf("f%d", i), Mode: 0o644, Data: c, Inode: uint64(10 + i), Links: 1, FailReadAt: failAt[i], FailClose: failClose[i]})
			}
			sfs := simfs.New(root)
			sfs.Park = true
			sfs.Short = short
			sfs.EOFWithData = eofWithData
			sfs.ShortBudget = 300 // then full reads: a megabyte read in single bytes would only repeat the same state
			saver := &c17Saver{}
			perFile := make([][][]byte, len(contents))
			failed := make([]bool, len(contents))
			var ferr error
			s.Do("saver", nil, func() {
				ctx := context.Background()
				wg, ctx := errgroup.WithContext(ctx)
				nWorkers := uint(1)
				if concurrent {
					nWorkers = 2
				}
				fsv := newFileSaver(ctx, wg, saver, c17Factory{pol}, nWorkers)
				fsv.NodeFromFileInfo = func(_, _ string, meta toNoder, ign bool) (*data.Node, error) {
					return meta.ToNode(ign, func(string, ...any) {})
				}
				if concurrent {
					// submit everything, then collect; the chunks of a file are found through its content IDs
					futs := make([]futureNode, len(contents))
					for i := range contents {
						f, err := sfs.OpenFile(fmt.Sprintf("/src/f%d", i), fs.O_RDONLY, false)
						if err != nil {
							ferr = err
							break
						}
						futs[i] = fsv.Save(ctx, "/", fmt.Sprintf("/src/f%d", i), f, func() {}, func() {}, func(*data.Node, ItemStats) {})
					}
					for i := range contents {
						if ferr != nil {
							break
						}
						res := futs[i].take(ctx)
						if res.err != nil && (failAt[i] > 0 || failClose[i]) {
							s.Count("fault:file-read-error")
							failed[i] = true
							continue
						}
						if res.err == nil && (failAt[i] > 0 || failClose[i]) {
							r.Fail("lossless", "read-error-swallowed", "file %d: reading or closing it failed but saving it reported success", i)
							failed[i] = true
							continue
						}
						if res.err != nil {
							ferr = res.err
							break
						}
						saver.mu.Lock()
						for _, id := range res.node.Content {
							perFile[i] = append(perFile[i], saver.byID[id])
						}
						saver.mu.Unlock()
						if uint64(len(contents[i])) != res.node.Size {
							r.Fail("lossless", "node-size-or-content-count", "file %d: node says %d bytes, the file has %d bytes", i, res.node.Size, len(contents[i]))
						}
					}
					fsv.TriggerShutdown()
					_ = wg.Wait()
					return
				}
				for i := range contents {
					f, err := sfs.OpenFile(fmt.Sprintf("/src/f%d", i), fs.O_RDONLY, false)
					if err != nil {
						ferr = err
						break
					}
					before := 0
					saver.mu.Lock()
					before = len(saver.chunks)
					saver.mu.Unlock()
					fn := fsv.Save(ctx, "/", fmt.Sprintf("/src/f%d", i), f, func() {}, func() {}, func(*data.Node, ItemStats) {})
					res := fn.take(ctx)
					if res.err != nil && (failAt[i] > 0 || failClose[i]) {
						// the injected read error: this file is skipped, the next one must be unaffected
						s.Count("fault:file-read-error")
						failed[i] = true
						continue
					}
					if res.err == nil && failAt[i] > 0 {
						r.Fail("lossless", "read-error-swallowed", "file %d: reading failed at offset %d but saving it reported success", i, failAt[i])
					}
					if res.err != nil {
						ferr = res.err
						break
					}
					saver.mu.Lock()
					perFile[i] = append([][]byte(nil), saver.chunks[before:]...)
					saver.mu.Unlock()
					if uint64(len(contents[i])) != res.node.Size || len(res.node.Content) != len(perFile[i]) {
						r.Fail("lossless", "node-size-or-content-count", "file %d: node says %d bytes in %d chunks, the file has %d bytes and %d chunks were saved", i, res.node.Size, len(res.node.Content), len(contents[i]), len(perFile[i]))
					}
					for k, id := range res.node.Content {
						if k < len(perFile[i]) && id != restic.Hash(perFile[i][k]) {
							r.Fail("lossless", "content-order", "file %d: content entry %d does not name the %d-th chunk that was saved", i, k, k)
						}
					}
				}
				fsv.TriggerShutdown()
				_ = wg.Wait()
			})
			r.SimTime = s.Elapsed()
			if s.Panic != "" {
				r.Fail("panic", "panic", "%s", s.Panic)
				return
			}
			if s.Deadlock != "" {
				r.Fail("liveness", "deadlock", "file saver never finished:\n%s", s.Deadlock)
				return
			}
			if ferr != nil {
				r.Fail("save", "save-failed", "saving failed without a fault: %v", ferr)
				return
			}
			for i, c := range contents {
				if failed[i] {
					continue
				}
				got := perFile[i]
				var cat []byte
				for k, ch := range got {
					cat = append(cat, ch...)
					if k < len(got)-1 && (len(ch) < chunker.MinSize || len(ch) > chunker.MaxSize) {
						r.Fail("bounded", "chunk-size-out-of-bounds", "file %d (%d bytes): chunk %d of %d has %d bytes, outside [%d, %d]", i, len(c), k, len(got), len(ch), chunker.MinSize, chunker.MaxSize)
					}
					if len(ch) > chunker.MaxSize {
						r.Fail("bounded", "chunk-too-large", "file %d: chunk %d has %d bytes, above the maximum %d", i, k, len(ch), chunker.MaxSize)
					}
				}
				if !bytes.Equal(cat, c) {
					r.Fail("lossless", "concatenation-differs", "file %d: the chunks concatenate to %d bytes that differ from the file's %d bytes", i, len(cat), len(c))
					continue
				}
				// reference: fresh streaming chunker over the whole content with full reads
				ref := chunker.New(bytes.NewReader(c), pol)
				var want []int
				buf := make([]byte, chunker.MaxSize)
				for {
					ch, err := ref.Next(buf)
					if err == io.EOF {
						break
					}
					if err != nil {
						r.Abort = "reference chunker: " + err.Error()
						return
					}
					want = append(want, int(ch.Length))
				}
				var gotLens []int
				for _, ch := range got {
					gotLens = append(gotLens, len(ch))
				}
				if fmt.Sprint(gotLens) != fmt.Sprint(want) {
					r.Fail("independent", "boundaries-differ", "file %d (%d bytes, processed after %d other files, reads of at most %d bytes): chunk lengths %v, a fresh chunker with full reads gives %v", i, len(c), i, short, gotLens, want)
				}
			}
		})
	})
}
