package repository

import (
	"context"
	"testing"

	"github.com/restic/restic/internal/backend"
	"github.com/restic/restic/internal/restic"
	"github.com/restic/restic/internal/verif/simbe"
)

const verifPassword = "geheim"

type quietT struct{ testing.TB }

func (quietT) Logf(string, ...any) {}

// verifInitRepo creates and initialises a repository over be with a small pack
// size (the 4 MiB minimum is only enforced by New).
func verifInitRepo(t testing.TB, be backend.Backend, version uint, opts Options, packSize uint) (*Repository, error) {
	TestUseLowSecurityKDFParameters(quietT{t})
	restic.TestDisableCheckPolynomial(t)
	o := opts
	o.PackSize = 0
	repo, err := New(be, o)
	if err != nil {
		return nil, err
	}
	if packSize != 0 {
		repo.opts.PackSize = packSize
	}
	pol := testChunkerPol
	if err := repo.Init(context.TODO(), version, verifPassword, &pol); err != nil {
		return nil, err
	}
	return repo, nil
}

// verifOpenRepo opens an existing repository through a new Repository object.
func verifOpenRepo(be backend.Backend, opts Options, packSize uint) (*Repository, error) {
	o := opts
	o.PackSize = 0
	repo, err := New(be, o)
	if err != nil {
		return nil, err
	}
	if packSize != 0 {
		repo.opts.PackSize = packSize
	}
	if err := repo.SearchKey(context.TODO(), verifPassword, 10, ""); err != nil {
		return nil, err
	}
	return repo, nil
}

func storeFiles(s *simbe.Store) map[backend.Handle][]byte { return s.Clone() }
