package repository

import (
	"bytes"
	"context"
	"fmt"
	"sort"
	"testing"
	"time"

	"github.com/restic/restic/internal/backend"
	"github.com/restic/restic/internal/restic"
	"github.com/restic/restic/internal/verif/hk"
	"github.com/restic/restic/internal/verif/hx"
	"github.com/restic/restic/internal/verif/model"
	"github.com/restic/restic/internal/verif/simbe"
	"github.com/restic/restic/internal/verif/simrt"
)

// TestVerifC43: streaming blobs from a pack delivers each requested blob
// exactly once. Packs are written by the real packer (blob sizes from tiny to
// >1 MiB so that gaps above the 1 MiB skip limit occur, occasionally >32 MiB in
// total so that the range is split), a second copy of some blobs lives in
// another pack; then LoadBlobsFromPack runs for generated subsets with
// download failures (before / inside the range), blobs damaged at rest and the
// second copy present, absent or damaged as well.
func TestVerifC43(t *testing.T) {
	hx.Main(t, "C43", func(r *hx.Rec) {
		tp := r.Tape
		s := simrt.New(tp)
		r.Sim = s
		if hx.KeepAllEvents {
			s.KeepEvents = -1
		}
		s.YieldMutex = false
		version := uint(tp.Range(1, 2))
		comp := []CompressionMode{CompressionOff, CompressionAuto}[tp.Choose(2)]
		huge := tp.Choose(12) == 0
		nBlobs := tp.Range(1, 14)
		st := tp.Stream()
		type blob struct {
			t    restic.BlobType
			data []byte
			id   restic.ID
		}
		var blobs []blob
		for i := 0; i < nBlobs; i++ {
			sizes := []int{1, 50, 1000, 30000, 400000, 1200000}
			sz := sizes[tp.Choose(len(sizes))]
			if huge && i < 3 {
				sz = 13 << 20
			}
			b := blob{t: restic.DataBlob, data: hk.Content(st, sz, 0)}
			b.id = restic.Hash(b.data)
			blobs = append(blobs, b)
		}
		r.Set("blobs", nBlobs)
		r.Set("huge", huge)
		simrt.Run(r.T, s, 120*time.Second, func() {
			store := simbe.NewStore(s)
			proc := s.NewProc("p1", 100, "h")
			cl := store.NewClient(proc, 2, true)
			var repo *Repository
			var setupErr error
			dup := map[int]bool{}
			s.SetFree(true)
			s.Do("setup", proc, func() {
				repo, setupErr = verifInitRepo(r.T, cl, version, Options{Compression: comp}, 128<<20)
				if setupErr != nil {
					return
				}
				// first pack: all blobs
				setupErr = repo.WithBlobUploader(context.Background(), func(ctx context.Context, up restic.BlobSaverWithAsync) error {
					for _, b := range blobs {
						if _, _, _, err := up.SaveBlob(ctx, b.t, b.data, restic.ID{}, false); err != nil {
							return err
						}
					}
					return nil
				})
				if setupErr != nil {
					return
				}
				// second pack: duplicates of a subset
				setupErr = repo.WithBlobUploader(context.Background(), func(ctx context.Context, up restic.BlobSaverWithAsync) error {
					for i, b := range blobs {
						if tp.Choose(3) == 0 && len(b.data) < 2<<20 {
							dup[i] = true
							if _, _, _, err := up.SaveBlob(ctx, b.t, b.data, restic.ID{}, true); err != nil {
								return err
							}
						}
					}
					return nil
				})
			})
			s.SetFree(false)
			if setupErr != nil {
				r.Abort = "setup: " + setupErr.Error()
				return
			}
			// locate the packs with the independent decoder
			view := model.View(repo.Key(), store.Clone(), false)
			var firstPack string
			for id, pc := range view.Packs {
				if len(pc.Blobs) == len(blobs) {
					// the pack holding all blobs (ties: distinct blobs make the first pack the largest)
					if firstPack == "" || len(view.Packs[firstPack].Blobs) < len(pc.Blobs) || view.PackSizes[id] > view.PackSizes[firstPack] {
						firstPack = id
					}
				}
			}
			if firstPack == "" {
				// distinct contents may collide (duplicates in the generated list): skip such runs
				r.Count("skipped_no_single_pack", 1)
				return
			}
			packBlobs := map[string]model.Blob{}
			for _, b := range view.Packs[firstPack].Blobs {
				packBlobs[b.ID] = b
			}
			secondCopy := map[string]model.Blob{} // blob id -> location in the other pack
			for id, pc := range view.Packs {
				if id == firstPack {
					continue
				}
				for _, b := range pc.Blobs {
					secondCopy[b.ID] = b
				}
			}
			// at-rest damage
			damagedFirst := map[string]bool{}
			damagedSecond := map[string]bool{}
			flip := func(packID string, b model.Blob) {
				h := backend.Handle{Type: backend.PackFile, Name: packID}
				data := append([]byte(nil), store.Get(h)...)
				pos := int(b.Offset) + tp.Choose(int(b.Length))
				data[pos] ^= 0x40
				store.Put(h, data)
				s.Count("fault:blob-damaged-at-rest")
			}
			for _, b := range blobs {
				id := b.id.String()
				if tp.Choose(5) == 0 && !damagedFirst[id] {
					damagedFirst[id] = true
					flip(firstPack, packBlobs[id])
				}
				if sc, ok := secondCopy[id]; ok && tp.Choose(4) == 0 && !damagedSecond[id] {
					damagedSecond[id] = true
					flip(sc.Pack, sc)
				}
			}
			// the request: a subset in generated order
			var req []restic.BlobHandle
			want := map[string][]byte{}
			for _, b := range blobs {
				if tp.Choose(3) != 0 {
					if _, dupReq := want[b.id.String()]; dupReq {
						continue
					}
					req = append(req, restic.BlobHandle{ID: b.id, Type: b.t})
					want[b.id.String()] = b.data
				}
			}
			if len(req) == 0 {
				req = append(req, restic.BlobHandle{ID: blobs[0].id, Type: blobs[0].t})
				want[blobs[0].id.String()] = blobs[0].data
			}
			for i := len(req) - 1; i > 0; i-- {
				j := tp.Choose(i + 1)
				req[i], req[j] = req[j], req[i]
			}
			r.Set("requested", len(req))
			// download faults on the first pack only / on everything
			faultMode := tp.Choose(4)
			switch faultMode {
			case 1:
				cl.F = simbe.Faults{ErrBefore: 300, Budget: 1 + tp.Choose(2)}
			case 2:
				cl.F = simbe.Faults{PartialRead: 400, Budget: 1 + tp.Choose(2)}
			case 3:
				cl.F = simbe.Faults{ErrBefore: 200, PartialRead: 200, Budget: -1}
			}
			cl.F.TimeoutErrs = tp.Choose(2) == 0 // failing downloads may look like request timeouts
			failedLoads := map[string]int{} // pack -> failed Load operations
			cl.S.OnLeave = nil
			calls := map[string]int{}
			type got struct {
				buf []byte
				err error
			}
			results := map[string]got{}
			var perr error
			firstID, _ := restic.ParseID(firstPack)
			s.Do("p1", proc, func() {
				perr = repo.LoadBlobsFromPack(context.Background(), firstID, req, func(bh restic.BlobHandle, buf []byte, err error) error {
					calls[bh.ID.String()]++
					results[bh.ID.String()] = got{append([]byte(nil), buf...), err}
					return nil
				})
			})
			_ = failedLoads
			r.SimTime = s.Elapsed()
			if s.Panic != "" {
				r.Fail("panic", "panic", "%s", s.Panic)
				return
			}
			faults := 0
			for k, v := range s.Stats() {
				if k == "fault:load-err-before" || k == "fault:load-partial" || k == "fault:load-short-then-err" {
					faults += v
				}
			}
			var ids []string
			for id := range want {
				ids = append(ids, id)
			}
			sort.Strings(ids)
			for _, id := range ids {
				n := calls[id]
				if n > 1 {
					r.Fail("exactly-once", "called-twice", "blob %s: callback called %d times", id[:8], n)
					continue
				}
				if n == 0 {
					// tolerated only if the whole call reported an error
					if perr == nil {
						r.Fail("exactly-once", "not-called", "blob %s: callback never called although LoadBlobsFromPack returned nil", id[:8])
					}
					continue
				}
				res := results[id]
				if res.err == nil {
					if !bytes.Equal(res.buf, want[id]) {
						r.Fail("plaintext", "wrong-plaintext", "blob %s: callback got %d bytes that are not the blob's content (%d bytes)", id[:8], len(res.buf), len(want[id]))
					}
					continue
				}
				// an error is justified only if this copy was unusable (damaged, or downloads failed) and no intact second copy could be loaded
				_, hasSecond := secondCopy[id]
				secondUsable := hasSecond && !damagedSecond[id]
				firstUsable := !damagedFirst[id]
				if faults == 0 && (firstUsable || secondUsable) {
					r.Fail("fallback", "error-despite-intact-copy", "blob %s: callback got error %v although an intact copy exists (first copy damaged: %v, second copy: %v, damaged: %v) and no download failed", id[:8], res.err, damagedFirst[id], hasSecond, damagedSecond[id])
				}
			}
			for id := range calls {
				if _, ok := want[id]; !ok {
					r.Fail("exactly-once", "unrequested-blob", "callback called for blob %s which was not requested", id[:8])
				}
			}
			if perr != nil {
				// the callback of this harness never fails and the context is never cancelled: failed downloads
				// are answered by loading the blobs one by one, and what cannot be loaded is reported per blob
				r.Fail("result", "call-failed-instead-of-falling-back", "LoadBlobsFromPack returned %v (download failures: %d); %d of %d callbacks were made", perr, faults, len(calls), len(want))
			}
			if perr != nil && faults == 0 {
				r.Fail("result", "error-without-download-failure", "LoadBlobsFromPack returned %v without any download failure", perr)
			}
			r.Count("callbacks", len(calls))
		})
	})
}

var _ = fmt.Sprint
