package repository

import (
	"strings"
	"bytes"
	"context"
	"crypto/sha256"
	"fmt"
	"os"
	"sort"
	"testing"
	"time"

	"github.com/restic/chunker"
	"github.com/restic/restic/internal/backend"
	"github.com/restic/restic/internal/backend/cache"
	"github.com/restic/restic/internal/backend/retry"
	"github.com/restic/restic/internal/restic"
	"github.com/restic/restic/internal/verif/hk"
	"github.com/restic/restic/internal/verif/hx"
	"github.com/restic/restic/internal/verif/model"
	"github.com/restic/restic/internal/verif/simbe"
	"github.com/restic/restic/internal/verif/simrt"
)

// TestVerifC02: loaded data always matches its content address. Save side: a
// monitor checks that every stored file's name is the SHA-256 of its bytes and
// (independent decoder) that every blob in every pack hashes to its ID,
// including the all-zero minimum-size chunk. Read side: Load delivers
// bit-flipped, truncated or misdirected (another file's) bytes, once, twice
// or persistently, with and without the local cache; LoadBlob, LoadUnpacked,
// LoadRaw, LoadBlobsFromPack and ListPackHandles must return the right content
// or an error, never other content.
func TestVerifC02(t *testing.T) {
	hx.Main(t, "C02", func(r *hx.Rec) {
		tp := r.Tape
		s := simrt.New(tp)
		r.Sim = s
		if hx.KeepAllEvents {
			s.KeepEvents = -1
		}
		s.YieldMutex = false
		version := uint(tp.Range(1, 2))
		comp := []CompressionMode{CompressionAuto, CompressionOff, CompressionMax}[tp.Choose(3)]
		withCache := tp.Choose(2) == 0
		withRetry := tp.Choose(2) == 0
		budget := []int{1, 2, 4, -1}[tp.Choose(4)]
		rate := []int{200, 500, 900}[tp.Choose(3)]
		nOps := tp.Range(3, 12)
		r.Set("version", version)
		r.Set("cache", withCache)
		r.Set("retry_layer", withRetry)
		r.Set("corrupt_read_permille", rate)
		r.Set("fault_budget", budget)
		nFaults := func() int {
			st := s.Stats()
			return st["fault:load-corrupt"] + st["fault:load-partial"] + st["fault:load-short-then-err"] + st["fault:load-err-before"]
		}
		simrt.Run(r.T, s, 120*time.Second, func() {
			store := simbe.NewStore(s)
			proc := s.NewProc("p1", 100, "h")
			cl := store.NewClient(proc, 4, true)
			// save-side monitor
			store.OnMutation = append(store.OnMutation, func(m simbe.Mutation, data []byte) {
				if m.Op != "save" || m.H.Type == backend.ConfigFile {
					return
				}
				sum := sha256.Sum256(data)
				if fmt.Sprintf("%x", sum) != m.H.Name {
					r.Fail("name-is-hash", "name-not-hash", "stored file %s/%s: its name is not the SHA-256 of its %d bytes", m.H.Type, m.H.Name[:8], len(data))
				}
			})
			st := tp.Stream()
			type item struct {
				kind  string
				id    restic.ID
				plain []byte
			}
			var items []item
			var repo2 *Repository
			var setupErr error
			dir := ""
			s.SetFree(true)
			s.Do("setup", proc, func() {
				repo, err := verifInitRepo(r.T, cl, version, Options{Compression: comp}, 32<<10)
				if err != nil {
					setupErr = err
					return
				}
				ctx := context.Background()
				for i := 0; i < 3; i++ {
					plain := []byte(fmt.Sprintf(`{"time":"2020-01-0%dT00:00:00Z","tree":"%064x","paths":["/p%d"],"pad":"%x"}`, i+1, i, i, hk.Content(st, 30+i*500, 0)))
					id, err := repo.SaveUnpacked(ctx, restic.WriteableSnapshotFile, plain)
					if err != nil {
						setupErr = err
						return
					}
					items = append(items, item{"snapshot", id, plain})
				}
				setupErr = repo.WithBlobUploader(ctx, func(ctx context.Context, up restic.BlobSaverWithAsync) error {
					for i := 0; i < 9; i++ {
						var db []byte
						switch i {
						case 0:
							db = make([]byte, chunker.MinSize) // the all-zero minimum-size chunk (hash shortcut)
						case 1:
							db = []byte{}
						case 6, 7:
							// other all-zero blobs: compressed they are stored with the same length as the zero chunk
							db = make([]byte, []int{500000, 480000}[i-6])
						case 8:
							// same plaintext length as blob 5: same stored length without compression
							db = hk.Content(st, 100+5*2500, 0)
						default:
							db = hk.Content(st, 100+i*2500, i%3)
						}
						if len(db) == 0 {
							continue
						}
						id, _, _, err := up.SaveBlob(ctx, restic.DataBlob, db, restic.ID{}, false)
						if err != nil {
							return err
						}
						items = append(items, item{"data", id, db})
						tb := []byte(fmt.Sprintf(`{"nodes":[{"name":"t%d","type":"file","content":null,"pad":"%x"}]}`, i, hk.Content(st, 50+i*700, 0)))
						id, _, _, err = up.SaveBlob(ctx, restic.TreeBlob, tb, restic.ID{}, false)
						if err != nil {
							return err
						}
						items = append(items, item{"tree", id, tb})
					}
					return nil
				})
				if setupErr != nil {
					return
				}
				for _, name := range store.Names(backend.IndexFile) {
					id, _ := restic.ParseID(name)
					plain, err := repo.LoadUnpacked(ctx, restic.IndexFile, id)
					if err != nil {
						setupErr = err
						return
					}
					items = append(items, item{"index", id, plain})
				}
				var be2 backend.Backend = cl
				if withRetry {
					be2 = retry.New(cl, 15*time.Minute, nil, nil)
				}
				repo2, err = verifOpenRepo(be2, Options{Compression: comp}, 32<<10)
				if err != nil {
					setupErr = err
					return
				}
				if withCache {
					dir, err = os.MkdirTemp("", "verif-c02-")
					if err != nil {
						setupErr = err
						return
					}
					c, err := cache.New(repo.Config().ID, dir)
					if err != nil {
						setupErr = err
						return
					}
					repo2.UseCache(c, func(string, ...any) {})
				}
				repo2.idx = repo.idx
			})
			s.SetFree(false)
			if dir != "" {
				defer os.RemoveAll(dir)
			}
			if setupErr != nil {
				r.Abort = "setup: " + setupErr.Error()
				return
			}
			// blobs in packs hash to their IDs (independent decoder)
			view := model.View(repo2.Key(), store.Clone(), true)
			for id, e := range view.BadPacks {
				r.Fail("blob-is-hash", "bad-pack", "pack %s: %s", id[:8], e)
			}
			packOf := map[string]string{}
			truth := map[string][]string{} // pack -> sorted blob keys
			for id, pc := range view.Packs {
				for _, bb := range pc.BadBlobs {
					r.Fail("blob-is-hash", "blob-not-hash", "pack %s holds a blob that does not hash to its ID: %s", id[:8], bb)
				}
				for _, b := range pc.Blobs {
					packOf[b.Key()] = id
					truth[id] = append(truth[id], b.Key())
				}
				sort.Strings(truth[id])
			}
			// a ranged read may be answered with the bytes of another blob of the same pack and the same stored length
			store.AltRange = func(h backend.Handle, offset int64, length int, arg int) (int64, bool) {
				if h.Type != backend.PackFile {
					return 0, false
				}
				pc := view.Packs[h.Name]
				if pc == nil {
					return 0, false
				}
				var cands []int64
				for _, b := range pc.Blobs {
					if int(b.Length) == length && int64(b.Offset) != offset {
						cands = append(cands, int64(b.Offset))
					}
				}
				if len(cands) == 0 {
					return 0, false
				}
				return cands[arg%len(cands)], true
			}
			var twins []int
			for i, it := range items {
				if it.kind != "data" && it.kind != "tree" {
					continue
				}
				pc := view.Packs[packOf[it.kind+"/"+it.id.String()]]
				if pc == nil {
					continue
				}
				var me *model.Blob
				for k := range pc.Blobs {
					if pc.Blobs[k].Key() == it.kind+"/"+it.id.String() {
						me = &pc.Blobs[k]
					}
				}
				for _, b := range pc.Blobs {
					if me != nil && b.Length == me.Length && b.Offset != me.Offset {
						twins = append(twins, i)
						break
					}
				}
			}
			r.Count("blobs_with_same_length_sibling", len(twins))
			// read faults
			cl.F = simbe.Faults{CorruptRead: rate, Budget: budget}
			downMode := tp.Choose(4) == 0
			if downMode {
				// one damaged download, and from then on the backend is down: every further download fails
				cl.F = simbe.Faults{CorruptRead: 1000, Budget: 1}
				cl.Script = func(op string, _ backend.Handle, _ int) *simbe.Forced {
					if op == "Load" && s.Stats()["fault:load-corrupt"] >= 1 {
						s.Count("fault:load-err-before")
						return &simbe.Forced{Kind: "err-before"}
					}
					return nil
				}
			}
			if withRetry {
				// downloads also break off half-way or fail outright; the retry layer repeats them
				cl.F.PartialRead = rate / 2
				cl.F.ErrBefore = rate / 4
			}
			ctx := context.Background()
			s.Do("reader", proc, func() {
				for k := 0; k < nOps && !r.Failed(); k++ {
					it := items[tp.Choose(len(items))]
					if len(twins) > 0 && tp.Choose(3) == 2 {
						// blobs that have a sibling of the same stored length in their pack (targets of misdirected ranges)
						it = items[twins[tp.Choose(len(twins))]]
					}
					fired0 := nFaults()
					var got []byte
					var err error
					what := ""
					switch mode := tp.Choose(4); {
					case it.kind == "snapshot" || it.kind == "index":
						ft := restic.SnapshotFile
						if it.kind == "index" {
							ft = restic.IndexFile
						}
						if mode%2 == 0 {
							what = "LoadUnpacked"
							got, err = repo2.LoadUnpacked(ctx, ft, it.id)
						} else {
							what = "LoadRaw"
							var raw []byte
							raw, err = repo2.LoadRaw(ctx, ft, it.id)
							if err == nil {
								// raw bytes must hash to the file name
								if restic.Hash(raw) != it.id {
									r.Fail("content-address", "raw-not-hash", "LoadRaw(%s %v) returned nil error and %d bytes that do not hash to the ID", it.kind, it.id.Str(), len(raw))
								}
								continue
							}
						}
					case mode == 3:
						what = "LoadBlobsFromPack"
						bt := restic.DataBlob
						if it.kind == "tree" {
							bt = restic.TreeBlob
						}
						pid, _ := restic.ParseID(packOf[it.kind+"/"+it.id.String()])
						called := 0
						err = repo2.LoadBlobsFromPack(ctx, pid, []restic.BlobHandle{{ID: it.id, Type: bt}}, func(bh restic.BlobHandle, buf []byte, cberr error) error {
							called++
							if cberr == nil {
								got = append([]byte(nil), buf...)
							} else {
								err = cberr
							}
							return nil
						})
						if err == nil && called != 1 {
							r.Fail("content-address", "callback-count", "LoadBlobsFromPack: %d callbacks for one blob", called)
						}
						if called == 1 && got == nil && err == nil {
							continue
						}
					case mode == 2:
						what = "ListPackHandles"
						pk := packOf[it.kind+"/"+it.id.String()]
						pid, _ := restic.ParseID(pk)
						hs, lerr := repo2.ListPackHandles(ctx, pid, int64(view.PackSizes[pk]))
						if lerr == nil {
							var keys []string
							for _, h := range hs {
								keys = append(keys, h.Type.String()+"/"+h.ID.String())
							}
							sort.Strings(keys)
							// a pack header is not bound to its pack: a misdirected read that delivers another pack's
							// header cannot be noticed by a listing alone (blob loads notice it through the content hash)
							if fmt.Sprint(keys) != fmt.Sprint(truth[pk]) && s.Stats()["fault:load-misdirected"] == 0 {
								r.Fail("content-address", "wrong-pack-listing", "ListPackHandles(%s) returned nil error and %d handles that differ from the %d blobs in the pack", pk[:8], len(keys), len(truth[pk]))
							}
						} else if nFaults() == fired0 && !(withCache && nFaults() > 0) && !(downMode && nFaults() > 0) && !(withRetry && nFaults() > 0 && strings.Contains(lerr.Error(), "circuit breaker open")) {
							r.Fail("no-error", "error-without-fault", "ListPackHandles failed without a corrupted read: %v", lerr)
						}
						continue
					default:
						what = "LoadBlob"
						bt := restic.DataBlob
						if it.kind == "tree" {
							bt = restic.TreeBlob
						}
						got, err = repo2.LoadBlob(ctx, restic.BlobHandle{ID: it.id, Type: bt}, nil)
					}
					if err == nil && !bytes.Equal(got, it.plain) {
						r.Fail("content-address", "wrong-content", "%s(%s %v) returned nil error and %d bytes that are not the content saved under that ID (%d bytes)", what, it.kind, it.id.Str(), len(got), len(it.plain))
					}
					// with the cache a corrupted download may sit in the cache and be discarded only once per process
					clean := nFaults() == fired0
					if withCache {
						clean = nFaults() == 0
					}
					if downMode && nFaults() > 0 {
						clean = false // the backend is down: any failure is justified (also one answered by the retry layer's circuit breaker)
					}
					if withRetry && err != nil && nFaults() > 0 && strings.Contains(err.Error(), "circuit breaker open") {
						// the retry layer refuses a file for a while after it failed for good in an earlier operation
						clean = false
					}
					if err != nil && clean {
						r.Fail("no-error", "error-without-fault", "%s(%s %v) failed although no read was corrupted: %v", what, it.kind, it.id.Str(), err)
					}
					if err != nil {
						r.Count("loads_failed_after_corrupt_read", 1)
					} else {
						r.Count("loads_ok", 1)
					}
				}
			})
			r.SimTime = s.Elapsed()
			if s.Panic != "" {
				r.Fail("panic", "panic", "%s", s.Panic)
			}
		})
	})
}
