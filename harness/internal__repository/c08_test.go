package repository

import (
	"context"
	"fmt"
	"sort"
	"testing"
	"time"

	"github.com/restic/restic/internal/backend"
	"github.com/restic/restic/internal/repository/index"
	"github.com/restic/restic/internal/repository/pack"
	"github.com/restic/restic/internal/restic"
	"github.com/restic/restic/internal/verif/hx"
	"github.com/restic/restic/internal/verif/simbe"
	"github.com/restic/restic/internal/verif/simrt"
)

type c08Entry struct {
	bh   restic.BlobHandle
	pack restic.ID
	off  uint
	ln   uint
	ulen uint
}

func (e c08Entry) String() string {
	return fmt.Sprintf("%v/%s@%s:%d+%d/%d", e.bh.Type, e.bh.ID.Str(), e.pack.Str(), e.off, e.ln, e.ulen)
}

// TestVerifC08: the loaded index matches exactly the index files in the
// repository. Histories of adding, superseding and deleting index files (with
// blobs present in several packs and exact duplicate entries in several files)
// interleaved with incremental loads into one long-lived MasterIndex whose
// parallel file loads complete in scheduled order, optionally with an index
// file disappearing while a load is in progress. After every successful load
// Lookup of every blob equals the model of the index files in the store and
// equals a fresh load.
func TestVerifC08(t *testing.T) {
	hx.Main(t, "C08", func(r *hx.Rec) {
		tp := r.Tape
		s := simrt.New(tp)
		r.Sim = s
		if hx.KeepAllEvents {
			s.KeepEvents = -1
		}
		s.Procs = tp.Range(1, 8)
		s.YieldMutex = tp.Choose(3) == 0
		conns := uint(tp.Range(1, 6))
		nSteps := tp.Range(3, 9)
		st := tp.Stream()
		newID := func() restic.ID {
			var id restic.ID
			st.Fill(id[:])
			return id
		}
		r.Set("steps", nSteps)
		r.Set("conns_procs", fmt.Sprintf("%d/%d", conns, s.Procs))
		simrt.Run(r.T, s, 120*time.Second, func() {
			store := simbe.NewStore(s)
			proc := s.NewProc("p1", 100, "h")
			cl := store.NewClient(proc, conns, true)
			var writer, reader *Repository
			var setupErr error
			s.SetFree(true)
			s.Do("setup", proc, func() {
				writer, setupErr = verifInitRepo(r.T, cl, 2, Options{}, 0)
				if setupErr == nil {
					reader, setupErr = verifOpenRepo(cl, Options{}, 0)
				}
			})
			s.SetFree(false)
			if setupErr != nil {
				r.Abort = "setup: " + setupErr.Error()
				return
			}
			model := map[restic.ID][]c08Entry{} // index file -> entries
			var universe []restic.BlobHandle
			var allEntries []c08Entry
			ctx := context.Background()
			saveIndex := func(entries []c08Entry) (restic.ID, error) {
				idx := index.NewIndex()
				byPack := map[restic.ID]pack.Blobs{}
				var order []restic.ID
				for _, e := range entries {
					if _, ok := byPack[e.pack]; !ok {
						order = append(order, e.pack)
					}
					byPack[e.pack] = append(byPack[e.pack], pack.Blob{BlobHandle: e.bh, Offset: e.off, Length: e.ln, UncompressedLength: e.ulen})
				}
				for _, p := range order {
					idx.StorePack(p, byPack[p])
				}
				idx.Finalize()
				return idx.SaveIndex(ctx, &internalRepository{writer})
			}
			genEntries := func() []c08Entry {
				var out []c08Entry
				nPacks := tp.Range(1, 3)
				big := tp.Choose(5) == 0
				for p := 0; p < nPacks; p++ {
					pid := newID()
					off := uint(0)
					nb := tp.Range(1, 4)
					if big {
						// occasionally a large index file: the in-memory tables grow by several doublings at once
						nb = []int{20, 70, 150, 300}[tp.Choose(4)]
					}
					for b := 0; b < nb; b++ {
						var bh restic.BlobHandle
						if len(universe) > 0 && tp.Choose(3) == 0 {
							bh = universe[tp.Choose(len(universe))] // the same blob in another pack
						} else {
							bh = restic.BlobHandle{ID: newID(), Type: []restic.BlobType{restic.DataBlob, restic.TreeBlob}[tp.Choose(2)]}
							universe = append(universe, bh)
						}
						ln := uint(40 + tp.Choose(5000))
						ul := uint(0)
						if tp.Choose(2) == 0 {
							ul = ln + uint(tp.Choose(9000))
						}
						out = append(out, c08Entry{bh, pid, off, ln, ul})
						off += ln
					}
				}
				if len(allEntries) > 0 && tp.Choose(4) == 0 {
					// an exact duplicate of an entry that is already in another index file
					out = append(out, allEntries[tp.Choose(len(allEntries))])
				}
				return out
			}
			expected := func(files map[restic.ID][]c08Entry) map[string]bool {
				set := map[string]bool{}
				for _, es := range files {
					for _, e := range es {
						set[e.String()] = true
					}
				}
				return set
			}
			lookupAll := func(repo *Repository) map[string]bool {
				set := map[string]bool{}
				for _, bh := range universe {
					for _, pb := range repo.idx.Lookup(bh) {
						pid := pb.PackID()
						set[fmt.Sprintf("%v/%s@%s:%d+%d/%d", bh.Type, bh.ID.Str(), pid.Str(), pb.Blob.Offset, pb.Blob.Length, pb.Blob.UncompressedLength)] = true
					}
				}
				return set
			}
			diff := func(a, b map[string]bool) string {
				var only []string
				for k := range a {
					if !b[k] {
						only = append(only, "-"+k)
					}
				}
				for k := range b {
					if !a[k] {
						only = append(only, "+"+k)
					}
				}
				sort.Strings(only)
				if len(only) > 4 {
					only = only[:4]
				}
				return fmt.Sprint(only)
			}
			var hist []string
			loads := 0
			for step := 0; step < nSteps && !r.Failed(); step++ {
				op := tp.Choose(5)
				if step == 0 {
					op = 0
				}
				if step == nSteps-1 {
					op = 4
				}
				var ids []restic.ID
				for id := range model {
					ids = append(ids, id)
				}
				sort.Slice(ids, func(i, j int) bool { return ids[i].String() < ids[j].String() })
				switch {
				case op <= 1 || len(ids) == 0: // add
					es := genEntries()
					var id restic.ID
					var err error
					s.SetFree(true)
					s.Do("add", proc, func() { id, err = saveIndex(es) })
					s.SetFree(false)
					if err != nil {
						r.Abort = "save index: " + err.Error()
						return
					}
					model[id] = es
					allEntries = append(allEntries, es...)
					hist = append(hist, fmt.Sprintf("add(%d entries)", len(es)))
				case op == 2 && len(ids) >= 2: // supersede two files by their union
					a, b := ids[tp.Choose(len(ids))], ids[tp.Choose(len(ids))]
					if a == b {
						continue
					}
					union := append(append([]c08Entry{}, model[a]...), model[b]...)
					// the writer de-duplicates exact duplicates within one file
					seen := map[string]bool{}
					var es []c08Entry
					for _, e := range union {
						if !seen[e.String()] {
							seen[e.String()] = true
							es = append(es, e)
						}
					}
					var id restic.ID
					var err error
					s.SetFree(true)
					s.Do("supersede", proc, func() { id, err = saveIndex(es) })
					s.SetFree(false)
					if err != nil {
						r.Abort = "save index: " + err.Error()
						return
					}
					model[id] = es
					store.Del(backend.Handle{Type: backend.IndexFile, Name: a.String()})
					store.Del(backend.Handle{Type: backend.IndexFile, Name: b.String()})
					delete(model, a)
					delete(model, b)
					hist = append(hist, "supersede")
				case op == 3: // delete
					a := ids[tp.Choose(len(ids))]
					store.Del(backend.Handle{Type: backend.IndexFile, Name: a.String()})
					delete(model, a)
					hist = append(hist, "delete")
				default: // incremental load, optionally with a file disappearing meanwhile
					before := expected(model)
					var victim restic.ID
					vanish := tp.Choose(4) == 0 && len(ids) > 0
					if vanish {
						victim = ids[tp.Choose(len(ids))]
					}
					var err error
					s.Go("load", proc, func() {
						err = reader.LoadIndex(ctx, restic.NoopTerminalCounterFactory)
					})
					supersede := vanish && tp.Choose(2) == 0
					var replacement restic.ID
					var repErr error
					if vanish {
						s.Go("vanish", proc, func() {
							simrt.Park("vanish", victim.Str(), nil)
							if supersede {
								// what prune / repair index do: a new index file with the same entries is stored first,
								// then the old one is removed
								replacement, repErr = saveIndex(model[victim])
							}
							store.Del(backend.Handle{Type: backend.IndexFile, Name: victim.String()})
							s.Count("fault:index-file-vanished-during-load")
						})
					}
					s.Loop()
					loads++
					if s.Panic != "" {
						r.Fail("panic", "panic", "%s", s.Panic)
						return
					}
					if s.Deadlock != "" {
						r.Fail("liveness", "deadlock", "index load never finished:\n%s", s.Deadlock)
						return
					}
					if vanish {
						if supersede && repErr == nil && !replacement.IsNull() {
							model[replacement] = model[victim]
							s.Count("fault:index-file-superseded-during-load")
						}
						delete(model, victim)
					}
					after := expected(model)
					hist = append(hist, fmt.Sprintf("load(vanish=%v)", vanish))
					where := fmt.Sprintf("history %v", hist)
					if err != nil {
						if !vanish {
							r.Fail("load", "load-failed", "%s: incremental load failed: %v", where, err)
						}
						// the long-lived index may be in any state after a failed load: start over
						reader.clearIndex()
						continue
					}
					got := lookupAll(reader)
					if d1, d2 := diff(before, got), diff(after, got); d1 != "[]" && d2 != "[]" {
						r.Fail("lookup-exact", "lookup-differs", "%s: after the load the lookups differ from the index files in the repository: %s", where, d2)
						continue
					}
					// equals a fresh load (no concurrent change any more)
					var fresh *Repository
					var ferr error
					s.SetFree(true)
					s.Do("fresh", proc, func() {
						fresh, ferr = verifOpenRepo(cl, Options{}, 0)
						if ferr == nil {
							ferr = fresh.LoadIndex(ctx, restic.NoopTerminalCounterFactory)
						}
					})
					s.SetFree(false)
					if ferr != nil {
						r.Fail("load", "fresh-load-failed", "%s: a fresh load failed: %v", where, ferr)
						continue
					}
					if d := diff(after, lookupAll(fresh)); d != "[]" {
						r.Fail("lookup-exact", "fresh-lookup-differs", "%s: a fresh load differs from the index files in the repository: %s", where, d)
					}
					if vanish && diff(after, got) != "[]" {
						// the long-lived index legitimately still holds the vanished file; the next load must drop it
						continue
					}
				}
			}
			r.Set("history", fmt.Sprint(hist))
			r.Count("loads", loads)
			r.SimTime = s.Elapsed()
		})
	})
}
