package repository

import (
	"context"
	"encoding/json"
	"fmt"
	"sort"
	"sync"
	"testing"
	"time"

	"github.com/restic/restic/internal/backend"
	"github.com/restic/restic/internal/backend/sema"
	"github.com/restic/restic/internal/verif/hx"
	"github.com/restic/restic/internal/verif/model"
	"github.com/restic/restic/internal/verif/simbe"
	"github.com/restic/restic/internal/verif/simrt"
)

// Lock harness "K" (C12, C13): 2-3 simulated processes with their own
// Repository objects over one store and the real connection-limiting wrapper
// run the real LockRepo / refresh / monitor / unlock / RemoveStaleLocks code with
// the real constants (30 min stale, 5 min refresh, 22.5 min refreshability,
// 200 ms re-check) on the simulated clock, with per-process clock offset, one
// bounded stall inside a lock operation, backend outages and crashes.
//
// Assumption bounds (part of every replay): pairwise clock offset and the
// single stall are each below the staleness margin (30 min - 22.5 min).

const (
	kMaxSkew  = 6 * time.Minute // pairwise
	kMaxStall = 6 * time.Minute
)

type kProcPlan struct {
	Offset    time.Duration
	Host      string
	Start     time.Duration
	Excl      bool
	Retry     time.Duration
	Hold      time.Duration
	WorkEvery time.Duration
	End       string // "unlock", "crash"
	Janitor   bool   // run RemoveStaleLocks before locking
	StallOn   int    // n-th lock-file Save of this process is stalled (0 = none)
	Stall     time.Duration
	OutageAt  time.Duration // 0 = none; measured from process start
	OutageFor time.Duration
	Attempts  int
	// the n-th lock-file Remove of this process is applied but reported as failed (0 = none)
	RemoveLostOn int
	// standby of the whole process (timers, goroutines, monotonic clock), measured from the start of the run
	StandbyAt  time.Duration
	StandbyFor time.Duration
	UID        int // user the process runs as (0 = root)
	// during the outage every operation first hangs for this long and then fails (0 = fails at once)
	OutageSlow time.Duration
}

func (p kProcPlan) String() string {
	return fmt.Sprintf("{off=%v host=%s start=%v excl=%v retry=%v hold=%v work=%v end=%s janitor=%v stall=%d:%v outage=%v+%v attempts=%d remove-lost=%d standby=%v+%v uid=%d slow-outage=%v}",
		p.Offset, p.Host, p.Start, p.Excl, p.Retry, p.Hold, p.WorkEvery, p.End, p.Janitor, p.StallOn, p.Stall, p.OutageAt, p.OutageFor, p.Attempts, p.RemoveLostOn, p.StandbyAt, p.StandbyFor, p.UID, p.OutageSlow)
}

func genLockPlans(tp *simrt.Tape) []kProcPlan {
	n := tp.Range(2, 3)
	plans := make([]kProcPlan, n)
	sameHost := tp.Choose(2) == 0
	for i := range plans {
		p := &plans[i]
		p.Offset = time.Duration(tp.Choose(7)-3) * time.Minute // -3..+3 => pairwise <= 6
		p.Host = "hostA"
		if !sameHost {
			p.Host = fmt.Sprintf("host%d", i)
		}
		p.UID = []int{0, 1000, 1000, 1001}[tp.Choose(4)]
		p.Start = []time.Duration{0, 0, 100 * time.Millisecond, 3 * time.Minute, 21 * time.Minute, 26 * time.Minute, 31 * time.Minute}[tp.Choose(7)]
		p.Excl = tp.Choose(2) == 0
		p.Retry = []time.Duration{0, 0, 2 * time.Minute, 20 * time.Minute}[tp.Choose(4)]
		p.Hold = []time.Duration{10 * time.Second, 6 * time.Minute, 26 * time.Minute, 50 * time.Minute}[tp.Choose(4)]
		p.WorkEvery = []time.Duration{20 * time.Second, 1 * time.Minute, 4 * time.Minute}[tp.Choose(3)]
		p.End = []string{"unlock", "unlock", "crash"}[tp.Choose(3)]
		p.Janitor = tp.Choose(3) == 0
		p.Attempts = tp.Range(1, 3)
		switch tp.Choose(6) {
		case 5: // the response of one lock-file removal is lost (applied, reported as failed)
			p.RemoveLostOn = 1 + tp.Choose(3)
			if p.Hold < 26*time.Minute {
				p.Hold = 26 * time.Minute
			}
		case 4: // refreshes fail for a while, then one slow but successful refresh around the refreshability deadline
			p.OutageAt = time.Duration(1+tp.Choose(4)) * time.Minute
			p.OutageFor = time.Duration(13+tp.Choose(6)) * time.Minute
			p.StallOn = 2
			p.Stall = time.Duration(2+tp.Choose(5)) * time.Minute
			p.Hold = 50 * time.Minute
			p.Start = 0
		case 1: // a stall inside one lock operation
			p.StallOn = 1 + tp.Choose(4)
			p.Stall = time.Duration(1+tp.Choose(6)) * time.Minute
		case 2: // an outage
			p.OutageAt = []time.Duration{1 * time.Minute, 6 * time.Minute, 11 * time.Minute}[tp.Choose(3)]
			p.OutageFor = []time.Duration{3 * time.Minute, 12 * time.Minute, 40 * time.Minute}[tp.Choose(3)]
			if tp.Choose(2) == 0 {
				// requests hang before they fail: the forced refresh (backend frozen meanwhile) takes a while
				p.OutageSlow = []time.Duration{15 * time.Second, 50 * time.Second, 90 * time.Second}[tp.Choose(3)]
			}
		case 3: // a slow refresh, then an outage
			p.StallOn = 2 + tp.Choose(2)
			p.Stall = time.Duration(3+tp.Choose(4)) * time.Minute
			p.OutageAt = []time.Duration{6 * time.Minute, 11 * time.Minute, 16 * time.Minute}[tp.Choose(3)]
			p.OutageFor = 60 * time.Minute
			p.Hold = 50 * time.Minute
		}
	}
	if tp.Choose(4) == 3 {
		// biased scenario: the holder's machine goes to standby for longer than the stale timeout; a
		// contender on another machine removes the stale lock and locks exclusively; the holder wakes up
		h := &plans[0]
		*h = kProcPlan{Host: "hostA", Attempts: 1, End: "unlock", Hold: 90 * time.Minute, Excl: tp.Choose(2) == 0}
		h.Offset = time.Duration(tp.Choose(3)-1) * time.Minute
		h.WorkEvery = []time.Duration{20 * time.Second, 1 * time.Minute, 4 * time.Minute}[tp.Choose(3)]
		// the refresh ticker (5 min) and the monitor's poll ticker (1 s) tick together at every multiple of
		// 5 min of the process's own time: going to standby just before one of them makes both due at wake-up
		h.StandbyAt = time.Duration(1+tp.Choose(3))*5*time.Minute - []time.Duration{500 * time.Millisecond, 200 * time.Second, 2 * time.Second}[tp.Choose(3)]
		h.StandbyFor = time.Duration(31+tp.Choose(20)) * time.Minute
		c := &plans[1]
		*c = kProcPlan{Host: "hostB", Attempts: 2, End: "unlock", Excl: true, Janitor: true, Retry: 0}
		c.Offset = time.Duration(tp.Choose(3)-1) * time.Minute
		c.Start = h.StandbyAt + time.Duration(31+tp.Choose(3))*time.Minute + 30*time.Second
		c.Hold = []time.Duration{6 * time.Minute, 26 * time.Minute}[tp.Choose(2)]
		c.WorkEvery = 1 * time.Minute
		for i := 2; i < len(plans); i++ {
			plans[i].Start = 200 * time.Minute // out of the way
			plans[i].Janitor = false
		}
		return plans
	}
	if tp.Choose(2) == 1 {
		// biased scenario: a holder whose lock file is older than its own countdown
		// believes (slow lock creation or slow refresh followed by an outage) and a
		// contender with a faster clock that removes stale locks and locks exclusively
		h := &plans[0]
		h.Start = 0
		h.Attempts = 1
		h.End = "unlock"
		h.Hold = 50 * time.Minute
		h.WorkEvery = []time.Duration{20 * time.Second, 1 * time.Minute}[tp.Choose(2)]
		h.Offset = -3 * time.Minute
		h.StallOn = 1 + tp.Choose(3)
		h.Stall = time.Duration(3+tp.Choose(4)) * time.Minute
		// the outage begins after the stalled operation and before the next refresh
		base := time.Duration(h.StallOn-1) * 5 * time.Minute
		h.OutageAt = base + h.Stall + time.Duration(1+tp.Choose(4))*time.Minute
		h.OutageFor = 90 * time.Minute
		c := &plans[1]
		c.Offset = time.Duration(tp.Choose(4)) * time.Minute
		c.Host = h.Host
		if tp.Choose(2) == 0 {
			c.Host = "hostB"
		}
		c.Start = base + time.Duration(24+tp.Choose(8))*time.Minute
		c.Excl = true
		c.Janitor = true
		c.Attempts = 3
		c.Retry = 0
		c.Hold = 6 * time.Minute
		c.End = "unlock"
		c.StallOn, c.OutageAt = 0, 0
	}
	return plans
}

type lockInfo struct {
	PID  int
	Time time.Time
	Excl bool
}

type kBelief struct {
	active bool
	excl   bool
	ctx    context.Context
}

func runLocks(r *hx.Rec, property string) {
	tp := r.Tape
	s := simrt.New(tp)
	r.Sim = s
	if hx.KeepAllEvents {
		s.KeepEvents = -1
	}
	s.MaxSteps = 400000
	s.YieldMutex = tp.Choose(3) == 0
	plans := genLockPlans(tp)
	var ps []string
	for _, p := range plans {
		ps = append(ps, p.String())
	}
	r.Set("plans", ps)
	r.Set("assumed_bounds", fmt.Sprintf("pairwise clock offset <= %v, one stall <= %v inside a lock operation per process", kMaxSkew, kMaxStall))
	own := func(oracle string) bool {
		// C12 owns the mutual-exclusion oracle, C13 everything about one holder
		if property == "C12" {
			return oracle == "exclusion"
		}
		return oracle != "exclusion"
	}
	fail := func(oracle, sig, format string, args ...any) {
		if own(oracle) {
			r.Fail(oracle, sig, format, args...)
		} else {
			r.Count("violations_of_sibling_property:"+oracle, 1)
		}
	}

	simrt.Run(r.T, s, 5*time.Minute, func() {
		store := simbe.NewStore(s)
		// initialise the repository (pass-through)
		var key = (*Repository)(nil)
		s.SetFree(true)
		initProc := s.NewProc("init", 999, "hostA")
		initCl := store.NewClient(initProc, 4, true)
		var initErr error
		s.Do("init", initProc, func() {
			key, initErr = verifInitRepo(r.T, sema.NewBackend(initCl), 2, Options{}, 0)
		})
		s.SetFree(false)
		if initErr != nil {
			r.Abort = "init: " + initErr.Error()
			return
		}
		masterKey := key.Key()

		type pstate struct {
			plan   kProcPlan
			proc   *simrt.Proc
			cl     *simbe.Client
			belief kBelief
			start  time.Time
			faulty bool
			// lock files this process removed itself (name -> true)
			unlockedClean      bool
			lockRemovedByOther bool
			// a lock-file operation of this holder was in flight when its newest lock file passed the
			// refreshability deadline (22.5 min on the holder's clock): the situation of the recorded finding
			// "a stalled refresh delays the forced stop"
			stalledAtDeadline bool
			workCtx           context.Context // the lock context the work loop is currently using
			staleLockRemoved  bool // another process removed this holder's lock file when it was stale for that process
			staleSig           string // signature of the first stops-before-stale episode of the current belief
		}
		var mu sync.Mutex
		procs := make([]*pstate, len(plans))
		byPID := map[int]*pstate{}
		lockFiles := map[string]lockInfo{} // lock files ever saved
		removedBy := map[string]int{}      // lock file name -> PID of the remover
		conflictSig := map[string]string{} // pair of processes -> signature of their conflict episode

		for i, pl := range plans {
			p := s.NewProc(fmt.Sprintf("p%d", i+1), 2000+i, pl.Host)
			p.ClockOffset = pl.Offset
			p.SuspendAt, p.SuspendFor = pl.StandbyAt, pl.StandbyFor
			p.UID = pl.UID
			cl := store.NewClient(p, 4, true)
			ps := &pstate{plan: pl, proc: p, cl: cl}
			ps.faulty = pl.StallOn != 0 || pl.OutageAt != 0 || pl.End == "crash" || pl.RemoveLostOn != 0 || pl.StandbyFor != 0
			procs[i] = ps
			byPID[p.PID] = ps
			lockSaves := 0
			lockRemoves := 0
			slowed := map[int]bool{}
			cl.Script = func(op string, h backend.Handle, n int) *simbe.Forced {
				if h.Type == backend.LockFile && op == "Remove" && pl.RemoveLostOn != 0 {
					lockRemoves++
					if lockRemoves == pl.RemoveLostOn {
						s.Count("fault:lock-remove-response-lost")
						return &simbe.Forced{Kind: "err-after"}
					}
				}
				if pl.OutageAt != 0 && !ps.start.IsZero() {
					el := time.Since(ps.start)
					if el >= pl.OutageAt && el < pl.OutageAt+pl.OutageFor {
						if pl.OutageSlow > 0 && !slowed[n] {
							slowed[n] = true
							return &simbe.Forced{Kind: "delay", Delay: pl.OutageSlow}
						}
						s.Count("fault:outage-error")
						return &simbe.Forced{Kind: "err-before"}
					}
					if slowed[n] {
						// the outage ended while the request was hanging: it fails all the same
						s.Count("fault:outage-error")
						return &simbe.Forced{Kind: "err-before"}
					}
				}
				if h.Type == backend.LockFile && op == "Save" && pl.StallOn != 0 {
					lockSaves++
					if lockSaves == pl.StallOn {
						s.Count("fault:stall")
						return &simbe.Forced{Kind: "delay", Delay: pl.Stall}
					}
				}
				return nil
			}
		}

		// a process in standby cannot act; after waking up it gets a moment to find out what happened
		// (its expiry monitor polls once per second)
		const wakeUpGrace = 10 * time.Second
		inStandby := func(ps *pstate) bool {
			if ps.plan.StandbyFor == 0 {
				return false
			}
			el := s.Elapsed()
			return el >= ps.plan.StandbyAt && el < ps.plan.StandbyAt+ps.plan.StandbyFor+wakeUpGrace
		}
		staleFor := func(holder *pstate, li lockInfo) (bool, string) {
			now := time.Now()
			for _, o := range procs {
				if o == holder {
					continue
				}
				age := now.Add(o.proc.ClockOffset).Sub(li.Time)
				if age > 30*time.Minute {
					return true, fmt.Sprintf("%s (clock offset %v) sees it as %v old", o.proc.Name, o.proc.ClockOffset, age)
				}
			}
			return false, ""
		}
		// newest existing lock file of a holder
		newest := func(holder *pstate) (lockInfo, bool) {
			var best lockInfo
			found := false
			for _, name := range store.Names(backend.LockFile) {
				li, ok := lockFiles[name]
				if !ok || li.PID != holder.proc.PID {
					continue
				}
				if !found || li.Time.After(best.Time) {
					best, found = li, true
				}
			}
			return best, found
		}

		store.OnMutation = append(store.OnMutation, func(m simbe.Mutation, data []byte) {
			mu.Lock()
			defer mu.Unlock()
			if m.H.Type != backend.LockFile {
				return
			}
			switch m.Op {
			case "save":
				pt, err := model.DecodeUnpacked(masterKey, data)
				if err != nil {
					return
				}
				var l Lock
				if json.Unmarshal(pt, &l) == nil {
					lockFiles[m.H.Name] = lockInfo{PID: l.PID, Time: l.Time, Excl: l.Exclusive}
				}
			case "remove":
				if m.Client != nil && m.Client.Proc != nil {
					removedBy[m.H.Name] = m.Client.Proc.PID
				}
				li, ok := lockFiles[m.H.Name]
				if !ok {
					return
				}
				holder := byPID[li.PID]
				if holder != nil && m.Client != holder.cl {
					// somebody else removed one of the holder's lock files: from now on the holder may
					// legitimately end up without any lock file (it notices and gives up)
					holder.lockRemovedByOther = true
					if rm := byPID[removedBy[m.H.Name]]; rm != nil && time.Now().Add(rm.proc.ClockOffset).Sub(li.Time) > 30*time.Minute {
						holder.staleLockRemoved = true
					}
				}
				if holder == nil || m.Client != holder.cl {
					return
				}
				// (d) the holder removed one of its own lock files: while it still believes to
				// hold the lock another lock file of its own must exist at this instant
				if holder.belief.active && holder.belief.ctx.Err() == nil && !holder.lockRemovedByOther {
					if _, ok := newest(holder); !ok {
						fail("no-gap", "gap-without-lock-file", "%s removed its lock file %s while holding the lock and has no other lock file in the repository at that instant", holder.proc.Name, m.H.Name[:8])
					}
				}
			}
		})
		store.OnArrive = append(store.OnArrive, func(c *simbe.Client, op string, h backend.Handle) {
			if h.Type == backend.LockFile || (op != "Save" && op != "Remove") {
				return
			}
			mu.Lock()
			defer mu.Unlock()
			var holder *pstate
			for _, p := range procs {
				if p.cl == c {
					holder = p
				}
			}
			if holder == nil {
				return
			}
			r.Count("work_ops", 1)
			// (f) the holder's lock context is already cancelled (it gave the lock up) and a repository
			// modification of it still reaches the storage
			if holder.belief.ctx != nil && holder.belief.ctx.Err() != nil && holder.workCtx == holder.belief.ctx {
				fail("stops-after-cancel", "modification-after-cancel", "%s: %s %v reaches the storage although the lock context was cancelled before (t=%v)", holder.proc.Name, op, h, s.Elapsed())
			}
			// (e) standby scenario: the holder's stale lock file was removed by someone else while the holder
			// slept; once it is awake (and had a moment to look) it must not modify the repository any more
			if holder.plan.StandbyFor != 0 && holder.staleLockRemoved && !inStandby(holder) && holder.belief.active && holder.belief.ctx.Err() == nil {
				fail("stops-after-removal", "works-after-stale-lock-was-removed", "%s starts %s %v although its lock file, stale for the others after the standby, was removed by another process (t=%v)", holder.proc.Name, op, h, s.Elapsed())
			}
			// (b) a repository modification starts: the holder's newest lock file must not be
			// judged stale yet by any other process within the assumed clock bound
			if li, ok := newest(holder); ok && !inStandby(holder) {
				if stale, who := staleFor(holder, li); stale {
					sig := "modification-after-stale"
					if holder.cl.InFlightLock > 0 || holder.stalledAtDeadline {
						// a lock-file operation of the holder (a stalled refresh) is in flight at this instant,
						// or was when the refreshability deadline passed
						sig = "modification-after-stale-while-refresh-in-flight"
					}
					// one episode keeps the signature it started with
					if holder.staleSig == "" {
						holder.staleSig = sig
					}
					sig = holder.staleSig
					fail("stops-before-stale", sig, "%s starts %s %v although its newest lock file (timestamp %v) is already stale for another process: %s", holder.proc.Name, op, h, li.Time.Format("15:04:05"), who)
				}
			}
		})
		s.AddMonitor(func() {
			mu.Lock()
			defer mu.Unlock()
			for _, p := range procs {
				if p.belief.active && p.belief.ctx.Err() == nil && p.cl.InFlightLock > 0 && !p.stalledAtDeadline {
					if li, ok := newest(p); ok && time.Now().Add(p.proc.ClockOffset).Sub(li.Time) >= 22*time.Minute+30*time.Second {
						p.stalledAtDeadline = true
					}
				}
			}
			// C12: conflicting beliefs
			for i, p := range procs {
				if !p.belief.active || p.belief.ctx.Err() != nil || p.cl.Dead || inStandby(p) {
					continue
				}
				for _, q := range procs[i+1:] {
					if !q.belief.active || q.belief.ctx.Err() != nil || q.cl.Dead || inStandby(q) {
						continue
					}
					if p.belief.excl || q.belief.excl {
						sig := "conflicting-locks"
						if p.cl.InFlightLock > 0 || q.cl.InFlightLock > 0 || p.stalledAtDeadline || q.stalledAtDeadline {
							sig = "conflicting-locks-while-refresh-in-flight"
						}
						// one episode (pair of overlapping beliefs) keeps the signature it started with
						pk := p.proc.Name + "/" + q.proc.Name
						if conflictSig[pk] == "" {
							conflictSig[pk] = sig
						}
						sig = conflictSig[pk]
						fail("exclusion", sig, "%s (exclusive=%v) and %s (exclusive=%v) both believe they hold the lock at t=%v", p.proc.Name, p.belief.excl, q.proc.Name, q.belief.excl, s.Elapsed())
					}
				}
				// C13 (a): without faults a fresh lock file of the holder always exists
				if !p.faulty {
					li, ok := newest(p)
					if !ok {
						// removed by someone else?
						continue
					}
					age := time.Now().Add(p.proc.ClockOffset).Sub(li.Time)
					if age > defaultRefreshInterval+30*time.Second {
						fail("fresh", "lock-not-refreshed", "%s holds the lock without faults but its newest lock file is %v old", p.proc.Name, age)
					}
				}
			}
		})

		for i := range procs {
			ps := procs[i]
			pl := ps.plan
			s.Go(ps.proc.Name, ps.proc, func() {
				time.Sleep(pl.Start)
				ps.start = time.Now()
				be := sema.NewBackend(ps.cl)
				repo, err := verifOpenRepo(be, Options{}, 0)
				if err != nil {
					return
				}
				for a := 0; a < pl.Attempts; a++ {
					if ps.cl.Dead {
						return
					}
					if pl.Janitor {
						_, _ = RemoveStaleLocks(context.Background(), repo)
					}
					ctx := context.Background()
					unlock, lctx, err := LockRepo(ctx, repo, pl.Excl, pl.Retry, func(string) {}, func(string, ...any) {})
					if err != nil {
						r.Count("lock_failed", 1)
						time.Sleep(time.Duration(1+a) * 90 * time.Second)
						continue
					}
					r.Count("lock_acquired", 1)
					mu.Lock()
					ps.belief = kBelief{active: true, excl: pl.Excl, ctx: lctx}
					ps.workCtx = lctx
					ps.lockRemovedByOther = false
					ps.staleLockRemoved = false
					ps.stalledAtDeadline = false
					ps.staleSig = ""
					mu.Unlock()
					// work while the lock context is live
					begin := time.Now()
					for n := 0; lctx.Err() == nil && time.Since(begin) < pl.Hold; n++ {
						name := fmt.Sprintf("%064x", uint64(ps.proc.PID)<<32|uint64(a)<<16|uint64(n))
						_ = be.Save(lctx, backend.Handle{Type: backend.PackFile, Name: name}, backend.NewByteReader([]byte("work"), be.Hasher()))
						tm := time.NewTimer(pl.WorkEvery)
						select {
						case <-lctx.Done():
						case <-tm.C:
						}
						tm.Stop()
					}
					if lctx.Err() != nil {
						r.Count("lock_lost", 1)
					}
					if pl.End == "crash" && a == pl.Attempts-1 {
						mu.Lock()
						ps.belief.active = false
						mu.Unlock()
						ps.cl.Crash()
						ps.proc.Dead.Store(true)
						unlock() // unwinds the goroutines; nothing reaches the store any more
						return
					}
					mu.Lock()
					ps.belief.active = false
					mu.Unlock()
					lost := lctx.Err() != nil
					unlock()
					if !ps.faulty && !lost {
						// (c) after a fault-free unlock no lock file of the holder remains,
						// unless it was not the holder that removed it
						mu.Lock()
						li, ok := newest(ps)
						mu.Unlock()
						if ok {
							fail("unlock", "lock-file-left", "%s unlocked without faults but a lock file of it (timestamp %v) is still in the repository", ps.proc.Name, li.Time.Format("15:04:05"))
						}
					}
					time.Sleep(30 * time.Second)
				}
				ps.proc.Dead.Store(true)
			})
		}
		s.Loop()
		r.SimTime = s.Elapsed()
		if s.Panic != "" {
			r.Fail("panic", "panic", "%s", s.Panic)
		}
		if s.Deadlock != "" {
			r.Fail("liveness", "deadlock", "lock code never finished:\n%s", s.Deadlock)
		}
		names := store.Names(backend.LockFile)
		sort.Strings(names)
		r.Count("lock_files_left", len(names))
	})
}

func TestVerifC12(t *testing.T) {
	hx.Main(t, "C12", func(r *hx.Rec) { runLocks(r, "C12") })
}

func TestVerifC13(t *testing.T) {
	hx.Main(t, "C13", func(r *hx.Rec) { runLocks(r, "C13") })
}
