package repository

import (
	"context"
	"fmt"
	"sort"
	"sync"
	"testing"
	"time"

	"github.com/restic/restic/internal/backend"
	"github.com/restic/restic/internal/repository/pack"
	"github.com/restic/restic/internal/restic"
	"github.com/restic/restic/internal/verif/hk"
	"github.com/restic/restic/internal/verif/hx"
	"github.com/restic/restic/internal/verif/model"
	"github.com/restic/restic/internal/verif/simbe"
	"github.com/restic/restic/internal/verif/simrt"
)

// TestVerifC44: concurrent SaveBlobAsync calls of generated size sequences
// into a real Repository (real packer manager, uploader, master index, crypto)
// over the simulated store; every mutex acquisition, random draw, goroutine
// start and backend operation is a scheduling point. Oracle: the independent
// store decoder over the bytes left in the store after the session.
func TestVerifC44(t *testing.T) {
	hx.Main(t, "C44", func(r *hx.Rec) {
		tp := r.Tape
		s := simrt.New(tp)
		r.Sim = s
		if hx.KeepAllEvents {
			s.KeepEvents = -1
		}
		s.Procs = tp.Range(1, 8)
		s.MaxSteps = 400000
		packSize := uint([]int{2048, 8192, 65536, 262144}[tp.Choose(4)])
		conns := uint(tp.Range(1, 5))
		version := uint(tp.Range(1, 2))
		comp := []CompressionMode{CompressionOff, CompressionAuto, CompressionMax}[tp.Choose(3)]
		idxFull := []int{0, 3, 10, 40}[tp.Choose(4)]
		nSubmit := tp.Range(1, 4)
		nBlobs := tp.Range(1, 40)
		faulty := tp.Choose(3) == 2
		// does the callback passed to WithBlobUploader wait for the SaveBlobAsync
		// callbacks (as the archiver does) or return as soon as everything is submitted?
		waitCallbacks := tp.Choose(2) == 0
		st := tp.Stream()
		type blob struct {
			t    restic.BlobType
			data []byte
			id   restic.ID
		}
		var blobs []blob
		sizes := []int{1, 17, 100, 700, int(packSize) / 5, int(packSize) / 2, int(packSize) - 60, int(packSize), int(packSize) + 1000, 3 * int(packSize)}
		for i := 0; i < nBlobs; i++ {
			var b blob
			if tp.Choose(4) == 0 {
				b.t = restic.TreeBlob
			} else {
				b.t = restic.DataBlob
			}
			if len(blobs) > 0 && tp.Choose(6) == 0 {
				// duplicate content of an earlier blob (same or other type)
				src := blobs[tp.Choose(len(blobs))]
				b.data = src.data
			} else {
				sz := sizes[tp.Choose(len(sizes))]
				if sz > 1<<20 {
					sz = 1 << 20
				}
				b.data = hk.Content(st, sz, tp.Choose(3))
			}
			b.id = restic.Hash(b.data)
			blobs = append(blobs, b)
		}
		r.Set("pack_size", packSize)
		r.Set("connections", conns)
		r.Set("version", version)
		r.Set("procs", s.Procs)
		r.Set("index_full_at", idxFull)
		r.Set("submitters", nSubmit)
		r.Set("faulty", faulty)
		r.Set("fn_waits_for_callbacks", waitCallbacks)
		var szs []int
		for _, b := range blobs {
			szs = append(szs, len(b.data))
		}
		r.Set("blob_sizes", fmt.Sprint(szs))

		simrt.Run(r.T, s, 120*time.Second, func() {
			hk.SetIndexFullThreshold(idxFull)
			defer hk.SetIndexFullThreshold(0)
			store := simbe.NewStore(s)
			proc := &simrt.Proc{Name: "p1", PID: 100, Host: "h1"}
			cl := store.NewClient(proc, conns, true)
			var repo *Repository
			s.SetFree(true)
			s.Do("init", proc, func() {
				var err error
				repo, err = verifInitRepo(r.T, cl, version, Options{Compression: comp}, packSize)
				if err != nil {
					r.Abort = "init: " + err.Error()
				}
			})
			s.SetFree(false)
			if r.Abort != "" {
				return
			}
			if faulty {
				// errors that make the session fail; accepted blobs are then not required to be durable
				cl.F = simbe.Faults{ErrBefore: 70, ErrAfter: 40, Budget: 2, OnlyTypes: map[backend.FileType]bool{backend.PackFile: true, backend.IndexFile: true}}
			}
			type result struct {
				id    restic.ID
				known bool
				size  int
				err   error
				done  bool
			}
			results := make([]result, len(blobs))
			var rmu sync.Mutex
			var sessionErr error
			s.Do("p1", proc, func() {
				ctx := context.Background()
				sessionErr = repo.WithBlobUploader(ctx, func(ctx context.Context, up restic.BlobSaverWithAsync) error {
					var wg, cbs sync.WaitGroup
					for k := 0; k < nSubmit; k++ {
						k := k
						wg.Add(1)
						go simrt.Wrap(func() {
							defer wg.Done()
							for i := k; i < len(blobs); i += nSubmit {
								i := i
								simrt.Park("submit", fmt.Sprint(i), nil)
								cbs.Add(1)
								up.SaveBlobAsync(ctx, blobs[i].t, blobs[i].data, restic.ID{}, false, func(newID restic.ID, known bool, size int, err error) {
									defer cbs.Done()
									rmu.Lock()
									if results[i].done {
										r.Fail("callback", "callback-twice", "callback for blob %d called twice", i)
									}
									results[i] = result{newID, known, size, err, true}
									rmu.Unlock()
								})
							}
						})()
					}
					wg.Wait()
					if waitCallbacks {
						cbs.Wait()
					}
					return nil
				})
			})
			r.SimTime = s.Elapsed()
			if s.Panic != "" {
				r.Fail("panic", "panic", "restic code panicked during the upload session (callback waits for async savers: %v): %s", waitCallbacks, s.Panic)
				return
			}
			if s.Deadlock != "" {
				r.Fail("liveness", "deadlock", "upload session never finished: all goroutines blocked\n%s", s.Deadlock)
				return
			}
			if s.Budget {
				return
			}
			faults := 0
			for k, v := range s.Stats() {
				if len(k) > 6 && k[:6] == "fault:" {
					faults += v
				}
			}
			if sessionErr != nil {
				if faults == 0 {
					r.Fail("session", "session-error", "upload session failed without any injected fault: %v", sessionErr)
				}
				r.Count("sessions_failed_by_fault", 1)
				// also after a failed session: whatever index entry became durable must name a pack
				// that is durable and really holds the blob there ("uploaded and then indexed")
				fv := model.View(repo.Key(), store.Clone(), false)
				var ks []string
				for k := range fv.Indexed {
					ks = append(ks, k)
				}
				sort.Strings(ks)
				for _, k := range ks {
					for _, e := range fv.Indexed[k] {
						pc := fv.Packs[e.Pack]
						ok := false
						if pc != nil {
							for _, b := range pc.Blobs {
								if b.Key() == k && b.Offset == e.Offset && b.Length == e.Length {
									ok = true
								}
							}
						}
						if !ok {
							r.Fail("indexed-before-uploaded", "index-names-missing-pack", "after a failed session a durable index entry names blob %s in pack %s, which is not (yet) in the store with that blob", k[:13], e.Pack[:8])
							return
						}
					}
				}
				return
			}
			r.Count("sessions_ok", 1)
			// ---- oracle: decode the store independently
			view := model.View(repo.Key(), store.Clone(), true)
			for id, e := range view.BadPacks {
				r.Fail("decode", "bad-pack", "uploaded pack %s is not decodable: %s", id[:8], e)
			}
			for id, e := range view.IndexErr {
				r.Fail("decode", "bad-index", "index %s is not decodable: %s", id[:8], e)
			}
			inPacks := map[string][]model.Blob{}
			var packIDs []string
			for id := range view.Packs {
				packIDs = append(packIDs, id)
			}
			sort.Strings(packIDs)
			for _, id := range packIDs {
				pc := view.Packs[id]
				if len(pc.BadBlobs) > 0 {
					r.Fail("decode", "bad-blob", "pack %s holds undecodable blobs: %v", id[:8], pc.BadBlobs)
				}
				types := map[string]bool{}
				var before uint
				for i, b := range pc.Blobs {
					inPacks[b.Key()] = append(inPacks[b.Key()], b)
					types[b.Type] = true
					if i < len(pc.Blobs)-1 {
						before += b.Length
					}
				}
				if len(types) > 1 {
					r.Fail("pack-types", "mixed-pack", "pack %s mixes tree and data blobs", id[:8])
				}
				if len(pc.Blobs) > 1 && before >= packSize {
					r.Fail("pack-size", "blob-after-full", "pack %s: %d bytes of blobs were in the pack (target size %d) before its last blob was added", id[:8], before, packSize)
				}
				if len(pc.Blobs) == 0 {
					r.Fail("pack-size", "empty-pack", "pack %s holds no blob", id[:8])
				}
				if uint(pc.HeaderLen) > pack.MaxHeaderSize {
					r.Fail("pack-header", "header-too-large", "pack %s: header of %d bytes exceeds the limit", id[:8], pc.HeaderLen)
				}
			}
			for i, b := range blobs {
				res := results[i]
				if !res.done {
					r.Fail("callback", "no-callback", "blob %d: callback never called although the session succeeded", i)
					continue
				}
				if res.err != nil {
					r.Fail("callback", "blob-error", "blob %d: error %v in a successful session", i, res.err)
					continue
				}
				if res.id != b.id {
					r.Fail("callback", "wrong-id", "blob %d: returned id %v, content hashes to %v", i, res.id, b.id)
				}
				key := b.t.String() + "/" + b.id.String()
				locs := inPacks[key]
				if len(locs) != 1 {
					r.Fail("exactly-one-pack", fmt.Sprintf("in-%d-packs", min(len(locs), 2)), "blob %d (%s, %d bytes) is contained in %d uploaded packs, want exactly 1", i, key[:13], len(b.data), len(locs))
					continue
				}
				loc := locs[0]
				found := false
				for _, e := range view.Indexed[key] {
					if e.Pack == loc.Pack && e.Offset == loc.Offset && e.Length == loc.Length && e.ULen == loc.ULen {
						found = true
					}
				}
				if !found {
					r.Fail("indexed", "not-indexed", "blob %d (%s) is in pack %s at %d+%d but no durable index entry says so (entries: %v)", i, key[:13], loc.Pack[:8], loc.Offset, loc.Length, view.Indexed[key])
				}
				if pt := view.Packs[loc.Pack].Plain[key]; string(pt) != string(b.data) {
					r.Fail("content", "wrong-content", "blob %d: stored plaintext differs from what was saved", i)
				}
			}
			// every index entry must describe a blob that is really there
			for key, es := range view.Indexed {
				for _, e := range es {
					ok := false
					for _, b := range inPacks[key] {
						if b.Pack == e.Pack && b.Offset == e.Offset && b.Length == e.Length {
							ok = true
						}
					}
					if !ok {
						r.Fail("indexed", "index-names-nothing", "index entry %s -> pack %s at %d+%d does not match any stored blob", key[:13], e.Pack[:8], e.Offset, e.Length)
					}
				}
			}
			r.Count("packs", len(view.Packs))
			r.Count("blobs", len(blobs))
		})
	})
}
