package repository

import (
	"encoding/hex"
	"crypto/sha256"
	"io"
	"bytes"
	"context"
	"fmt"
	"os"
	"path/filepath"
	"sort"
	"sync"
	"testing"
	"time"

	"github.com/restic/restic/internal/backend"
	"github.com/restic/restic/internal/backend/cache"
	"github.com/restic/restic/internal/restic"
	"github.com/restic/restic/internal/verif/hk"
	"github.com/restic/restic/internal/verif/hx"
	"github.com/restic/restic/internal/verif/simbe"
	"github.com/restic/restic/internal/verif/simrt"
)

// TestVerifC38: the local cache never changes what restic reads. A real cache
// directory and the real caching backend over the simulated store; 1-4 reader
// goroutines load snapshot, index, tree-blob and data-blob content through
// LoadUnpacked / LoadBlob / LoadRaw while a "gremlin" task, between scheduling
// points, deletes, truncates, flips, swaps or half-writes cache files, clears
// the cache directory or deletes files from the repository.
func TestVerifC38(t *testing.T) {
	hx.Main(t, "C38", func(r *hx.Rec) {
		tp := r.Tape
		s := simrt.New(tp)
		r.Sim = s
		if hx.KeepAllEvents {
			s.KeepEvents = -1
		}
		s.YieldMutex = tp.Choose(3) == 0
		nReaders := tp.Range(1, 4)
		nGremlin := []int{0, 0, 2, 5, 12}[tp.Choose(5)]
		prewarm := tp.Choose(2) == 0
		// without a gremlin everything in the cache was put there by the cache itself: then the backend
		// may fail or cut short its downloads, and raw loads through the caching backend are compared too
		beFaults := nGremlin == 0 && tp.Choose(2) == 0
		beRate := []int{100, 300, 600}[tp.Choose(3)]
		beBudget := tp.Range(1, 5)
		r.Set("readers", nReaders)
		r.Set("gremlin_actions", nGremlin)
		r.Set("prewarmed", prewarm)
		r.Set("backend_faults", beFaults)
		simrt.Run(r.T, s, 120*time.Second, func() {
			dir, err := os.MkdirTemp("", "verif-c38-")
			if err != nil {
				r.Abort = err.Error()
				return
			}
			defer os.RemoveAll(dir)
			store := simbe.NewStore(s)
			proc := s.NewProc("p1", 100, "h")
			cl := store.NewClient(proc, 4, true)
			st := tp.Stream()
			type item struct {
				kind  string // "snapshot", "index", "tree", "data"
				id    restic.ID
				plain []byte
			}
			var items []item
			var repo2 *Repository
			var setupErr error
			s.SetFree(true)
			s.Do("setup", proc, func() {
				repo, err := verifInitRepo(r.T, cl, 2, Options{}, 64<<10)
				if err != nil {
					setupErr = err
					return
				}
				ctx := context.Background()
				for i := 0; i < 3; i++ {
					plain := []byte(fmt.Sprintf(`{"time":"2020-01-0%dT00:00:00Z","tree":"%064x","paths":["/x%d"],"note":"%x"}`, i+1, i, i, hk.Content(st, 40+i*300, 0)))
					id, err := repo.SaveUnpacked(ctx, restic.WriteableSnapshotFile, plain)
					if err != nil {
						setupErr = err
						return
					}
					items = append(items, item{"snapshot", id, plain})
				}
				for round := 0; round < 2; round++ {
					setupErr = repo.WithBlobUploader(ctx, func(ctx context.Context, up restic.BlobSaverWithAsync) error {
						for i := 0; i < 4; i++ {
							tb := []byte(fmt.Sprintf(`{"nodes":[{"name":"n%d-%d","type":"file","content":null,"x":"%x"}]}`, round, i, hk.Content(st, 200+i*900, 0)))
							id, _, _, err := up.SaveBlob(ctx, restic.TreeBlob, tb, restic.ID{}, false)
							if err != nil {
								return err
							}
							items = append(items, item{"tree", id, tb})
							db := hk.Content(st, 500+i*3000, 0)
							id, _, _, err = up.SaveBlob(ctx, restic.DataBlob, db, restic.ID{}, false)
							if err != nil {
								return err
							}
							items = append(items, item{"data", id, db})
						}
						return nil
					})
					if setupErr != nil {
						return
					}
				}
				// index files as items: expected plaintext is read back without cache
				for _, name := range store.Names(backend.IndexFile) {
					id, _ := restic.ParseID(name)
					plain, err := repo.LoadUnpacked(ctx, restic.IndexFile, id)
					if err != nil {
						setupErr = err
						return
					}
					items = append(items, item{"index", id, plain})
				}
				// second repository object with the cache
				c, err := cache.New(repo.Config().ID, dir)
				if err != nil {
					setupErr = err
					return
				}
				repo2, err = verifOpenRepo(cl, Options{}, 64<<10)
				if err != nil {
					setupErr = err
					return
				}
				repo2.UseCache(c, func(string, ...any) {})
				if err := repo2.LoadIndex(ctx, restic.NoopTerminalCounterFactory); err != nil {
					setupErr = err
					return
				}
				if !prewarm {
					// start cold: remove what LoadIndex just cached
					_ = os.RemoveAll(filepath.Join(c.BaseDir(), repo.Config().ID))
					c2, err := cache.New(repo.Config().ID, dir)
					if err != nil {
						setupErr = err
						return
					}
					repo2, err = verifOpenRepo(cl, Options{}, 64<<10)
					if err == nil {
						repo2.UseCache(c2, func(string, ...any) {})
						// the index is loaded without touching the cache files again
						repo2.idx = repo.idx
					} else {
						setupErr = err
					}
				}
			})
			s.SetFree(false)
			if setupErr != nil {
				r.Abort = "setup: " + setupErr.Error()
				return
			}
			cacheRoot := filepath.Join(dir, repo2.Config().ID)
			listCache := func() []string {
				var out []string
				_ = filepath.Walk(cacheRoot, func(p string, fi os.FileInfo, err error) error {
					if err == nil && fi.Mode().IsRegular() && len(fi.Name()) == 64 {
						out = append(out, p)
					}
					return nil
				})
				sort.Strings(out)
				return out
			}
			var mu sync.Mutex
			deletedFromRepo := map[string]bool{}
			dirCleared := false // the cache's directory skeleton was removed: loads may keep failing
			gremlins := 0
			downloads := map[string]int{}
			store.OnArrive = append(store.OnArrive, func(c *simbe.Client, op string, h backend.Handle) {
				if op == "Load" {
					mu.Lock()
					downloads[h.Type.String()+"/"+h.Name]++
					mu.Unlock()
				}
			})
			ctx := context.Background()
			load := func(it item) ([]byte, error) {
				switch it.kind {
				case "snapshot":
					return repo2.LoadUnpacked(ctx, restic.SnapshotFile, it.id)
				case "index":
					return repo2.LoadUnpacked(ctx, restic.IndexFile, it.id)
				case "tree":
					return repo2.LoadBlob(ctx, restic.BlobHandle{ID: it.id, Type: restic.TreeBlob}, nil)
				default:
					return repo2.LoadBlob(ctx, restic.BlobHandle{ID: it.id, Type: restic.DataBlob}, nil)
				}
			}
			check := func(who string, it item, got []byte, err error, strict bool) {
				if err == nil && !bytes.Equal(got, it.plain) {
					r.Fail("same-bytes", "wrong-bytes", "%s: load of %s %v returned %d bytes that differ from the repository content (%d bytes)", who, it.kind, it.id.Str(), len(got), len(it.plain))
				}
				if err != nil && strict {
					r.Fail("no-error", "error-without-interference", "%s: load of %s %v failed although nobody touched the cache or the repository: %v", who, it.kind, it.id.Str(), err)
				}
			}
			// raw load through the caching backend: the same bytes as the repository, or an error
			rawLoad := func(who string, it item) {
				var h backend.Handle
				switch it.kind {
				case "snapshot":
					h = backend.Handle{Type: backend.SnapshotFile, Name: it.id.String()}
				case "index":
					h = backend.Handle{Type: backend.IndexFile, Name: it.id.String()}
				case "tree":
					pbs := repo2.idx.Lookup(restic.BlobHandle{ID: it.id, Type: restic.TreeBlob})
					if len(pbs) == 0 {
						return
					}
					h = backend.Handle{Type: backend.PackFile, Name: pbs[0].PackID().String(), IsMetadata: true}
				default:
					return
				}
				want := store.Get(h)
				if want == nil {
					return
				}
				var got []byte
				err := repo2.be.Load(ctx, h, 0, 0, func(rd io.Reader) error {
					var err error
					got, err = io.ReadAll(rd)
					return err
				})
				r.Count("raw_loads", 1)
				if err == nil && !bytes.Equal(got, want) {
					r.Fail("same-bytes", "wrong-bytes-raw", "%s: raw load of %v through the cache returned %d bytes that differ from the %d bytes in the repository, without an error", who, h, len(got), len(want))
				}
			}
			if beFaults {
				cl.F = simbe.Faults{PartialRead: beRate, ErrBefore: beRate / 3, Budget: beBudget}
			}
			for ri := 0; ri < nReaders; ri++ {
				ri := ri
				n := tp.Range(2, 8)
				plan := make([]int, n)
				for k := range plan {
					plan[k] = tp.Choose(len(items))
				}
				s.Go(fmt.Sprintf("reader%d", ri), proc, func() {
					for _, idx := range plan {
						it := items[idx]
						simrt.Park("read", it.kind, nil)
						got, err := load(it)
						mu.Lock()
						strict := gremlins == 0
						mu.Unlock()
						check(fmt.Sprintf("reader %d", ri), it, got, err, strict && nGremlin == 0 && !beFaults)
						if nGremlin == 0 {
							rawLoad(fmt.Sprintf("reader %d", ri), it)
						}
					}
				})
			}
			if nGremlin > 0 {
				type gact struct{ kind, a, b int }
				acts := make([]gact, nGremlin)
				for i := range acts {
					acts[i] = gact{tp.Choose(8), tp.Choose(1 << 16), tp.Choose(1 << 16)}
				}
				s.Go("gremlin", nil, func() {
					for _, a := range acts {
						simrt.Park("gremlin", fmt.Sprint(a.kind), nil)
						files := listCache()
						mu.Lock()
						gremlins++
						mu.Unlock()
						if a.kind == 7 {
							// delete a snapshot file from the repository itself
							names := store.Names(backend.SnapshotFile)
							if len(names) > 0 {
								n := names[a.a%len(names)]
								store.Del(backend.Handle{Type: backend.SnapshotFile, Name: n})
								mu.Lock()
								deletedFromRepo[n] = true
								mu.Unlock()
								s.Count("fault:repo-file-deleted")
							}
							continue
						}
						if a.kind == 6 {
							mu.Lock()
							dirCleared = true
							mu.Unlock()
							_ = os.RemoveAll(filepath.Join(cacheRoot, []string{"snapshots", "index", "data"}[a.a%3]))
							s.Count("fault:cache-dir-cleared")
							continue
						}
						if len(files) == 0 {
							continue
						}
						f := files[a.a%len(files)]
						data, err := os.ReadFile(f)
						if err != nil {
							continue
						}
						switch a.kind {
						case 0:
							_ = os.Remove(f)
							s.Count("fault:cache-file-deleted")
						case 1:
							_ = os.Truncate(f, int64(len(data)/2))
							s.Count("fault:cache-file-truncated")
						case 2:
							if len(data) > 0 {
								data[a.b%len(data)] ^= 0x10
								_ = os.WriteFile(f, data, 0o600)
								s.Count("fault:cache-file-bitflip")
							}
						case 3:
							g := files[a.b%len(files)]
							other, err := os.ReadFile(g)
							if err == nil {
								_ = os.WriteFile(f, other, 0o600)
								s.Count("fault:cache-file-swapped")
							}
						case 4:
							_ = os.WriteFile(f, append(data, data...), 0o600)
							s.Count("fault:cache-file-extended")
						case 5:
							_ = os.WriteFile(f, nil, 0o600)
							s.Count("fault:cache-file-emptied")
						}
					}
				})
			}
			s.Loop()
			r.SimTime = s.Elapsed()
			if s.Panic != "" {
				r.Fail("panic", "panic", "%s", s.Panic)
				return
			}
			if s.Deadlock != "" {
				r.Fail("liveness", "deadlock", "loads never finished:\n%s", s.Deadlock)
				return
			}
			cl.F = simbe.Faults{}
			if nGremlin == 0 && !beFaults {
				for k, n := range downloads {
					if n > 1 && (k[:5] == "index" || k[:8] == "snapshot") {
						r.Fail("one-download", "downloaded-twice", "%s was downloaded %d times although nothing disturbed the cache", k, n)
					}
				}
			}
			// a Save through the caching backend that fails at the repository (and whose follow-up
			// Stat fails too): nothing may be served from the cache for a file the repository does not have
			if tp.Choose(3) == 0 {
				payload := hk.Content(st, 300+tp.Choose(3000), 0)
				sum := sha256.Sum256(payload)
				h := backend.Handle{Type: []backend.FileType{backend.SnapshotFile, backend.IndexFile}[tp.Choose(2)], Name: hex.EncodeToString(sum[:])}
				failStat := tp.Choose(2) == 0
				cl.Script = func(op string, hh backend.Handle, _ int) *simbe.Forced {
					if hh.Type == h.Type && hh.Name == h.Name && (op == "Save" || failStat && op == "Stat") {
						s.Count("fault:save-through-cache-fails")
						return &simbe.Forced{Kind: "err-before"}
					}
					return nil
				}
				var serr, lerr error
				var got []byte
				s.Do("saver", proc, func() {
					serr = repo2.be.Save(ctx, h, backend.NewByteReader(payload, cl.Hasher()))
					cl.Script = nil
					lerr = repo2.be.Load(ctx, h, 0, 0, func(rd io.Reader) error {
						var err error
						got, err = io.ReadAll(rd)
						return err
					})
				})
				cl.Script = nil
				if serr == nil {
					r.Fail("save", "failed-save-reported-success", "Save of %v through the cache succeeded although the repository rejected it", h)
				}
				if lerr == nil && store.Get(h) == nil {
					r.Fail("same-bytes", "served-file-the-repository-lacks", "after a failed Save of %v (Stat failing too: %v) a load through the cache returned %d bytes without an error, but the repository does not have the file", h, failStat, len(got))
				}
			}
			// final round without interference: everything still in the repository loads correctly,
			// and afterwards every cache file equals the repository's bytes
			s.SetFree(true)
			s.Do("final", proc, func() {
				// a fresh restic process on the same cache directory (the per-process circuit
				// breaker "forget a cached file at most once" starts anew)
				if !dirCleared {
					c3, err := cache.New(repo2.Config().ID, dir)
					if err != nil {
						r.Abort = "final cache: " + err.Error()
						return
					}
					repo3, err := verifOpenRepo(cl, Options{}, 64<<10)
					if err != nil {
						r.Abort = "final open: " + err.Error()
						return
					}
					repo3.UseCache(c3, func(string, ...any) {})
					repo3.idx = repo2.idx
					repo2 = repo3
				}
				for _, it := range items {
					if it.kind == "snapshot" && deletedFromRepo[it.id.String()] {
						got, err := load(it)
						check("final round (file deleted from the repository)", it, got, err, false)
						continue
					}
					got, err := load(it)
					check("final round", it, got, err, !dirCleared)
				}
			})
			s.SetFree(false)
			// finally: a cached tree pack is removed from the repository through the caching backend the way prune
			// does it (a handle without the metadata flag); afterwards nothing may be served for it
			if !dirCleared && tp.Choose(3) == 0 {
				var victim string
				for _, it := range items {
					if it.kind == "tree" {
						if pbs := repo2.idx.Lookup(restic.BlobHandle{ID: it.id, Type: restic.TreeBlob}); len(pbs) > 0 {
							victim = pbs[0].PackID().String()
						}
					}
				}
				if victim != "" && store.Get(backend.Handle{Type: backend.PackFile, Name: victim}) != nil {
					var rerr, lerr error
					var got []byte
					s.SetFree(true)
					s.Do("remover", proc, func() {
						// make sure it is cached, then remove it
						_ = repo2.be.Load(ctx, backend.Handle{Type: backend.PackFile, Name: victim, IsMetadata: true}, 0, 0, func(rd io.Reader) error {
							_, err := io.ReadAll(rd)
							return err
						})
						rerr = repo2.be.Remove(ctx, backend.Handle{Type: backend.PackFile, Name: victim})
						lerr = repo2.be.Load(ctx, backend.Handle{Type: backend.PackFile, Name: victim, IsMetadata: true}, 0, 0, func(rd io.Reader) error {
							var err error
							got, err = io.ReadAll(rd)
							return err
						})
					})
					s.SetFree(false)
					s.Count("fault:tree-pack-removed-through-cache")
					if rerr == nil && lerr == nil && store.Get(backend.Handle{Type: backend.PackFile, Name: victim}) == nil {
						r.Fail("same-bytes", "served-file-the-repository-lacks", "tree pack %s was removed through the caching backend, yet a load through the cache still returns %d bytes without an error", victim[:8], len(got))
					}
					return
				}
			}
			for _, f := range listCache() {
				name := filepath.Base(f)
				var h backend.Handle
				switch filepath.Base(filepath.Dir(filepath.Dir(f))) {
				case "snapshots":
					h = backend.Handle{Type: backend.SnapshotFile, Name: name}
				case "index":
					h = backend.Handle{Type: backend.IndexFile, Name: name}
				case "data":
					h = backend.Handle{Type: backend.PackFile, Name: name}
				default:
					continue
				}
				want := store.Get(h)
				if want == nil || dirCleared {
					continue
				}
				got, err := os.ReadFile(f)
				if err == nil && h.Type == backend.PackFile {
					// packs are read by ranges: only the ranges of the blobs loaded in the final round must be right
					ok := true
					for _, it := range items {
						if it.kind != "tree" {
							continue
						}
						for _, pb := range repo2.idx.Lookup(restic.BlobHandle{ID: it.id, Type: restic.TreeBlob}) {
							if pb.PackID().String() != name {
								continue
							}
							lo, hi := int(pb.Blob.Offset), int(pb.Blob.Offset+pb.Blob.Length)
							if hi > len(got) || hi > len(want) || !bytes.Equal(got[lo:hi], want[lo:hi]) {
								ok = false
							}
						}
					}
					if !ok {
						r.Fail("repaired", "corrupt-cache-file-kept", "after a clean round of loads the cached pack %s still has wrong bytes in the range of a blob that was just loaded", name[:8])
					}
					continue
				}
				if err == nil && !bytes.Equal(got, want) {
					// only files that were loaded in the final round are required to be repaired
					r.Fail("repaired", "corrupt-cache-file-kept", "after a clean round of loads the cache file %s/%s still differs from the repository (%d vs %d bytes)", h.Type, name[:8], len(got), len(want))
				}
			}
		})
	})
}
