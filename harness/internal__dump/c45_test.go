package dump

import (
	"archive/tar"
	"archive/zip"
	"bytes"
	"context"
	"errors"
	"fmt"
	"io"
	"os"
	"sync"
	"testing"
	"time"

	"github.com/restic/restic/internal/data"
	"github.com/restic/restic/internal/restic"
	"github.com/restic/restic/internal/verif/hx"
	"github.com/restic/restic/internal/verif/simrt"
)

type c45Loader struct {
	blobs map[restic.ID][]byte
	conns uint
	fail  map[restic.ID]bool
	mu    sync.Mutex
	loads int
}

func (l *c45Loader) Connections() uint { return l.conns }
func (l *c45Loader) LookupBlobSize(bh restic.BlobHandle) (uint, bool) {
	b, ok := l.blobs[bh.ID]
	return uint(len(b)), ok
}
func (l *c45Loader) LoadBlob(ctx context.Context, bh restic.BlobHandle, _ []byte) ([]byte, error) {
	simrt.Park("load", bh.Type.String()+" "+bh.ID.Str(), nil)
	l.mu.Lock()
	l.loads++
	l.mu.Unlock()
	if l.fail[bh.ID] {
		if s := simrt.Cur(); s != nil {
			s.Count("fault:blob-load-failed")
		}
		return nil, errors.New("injected load error")
	}
	b, ok := l.blobs[bh.ID]
	if !ok {
		return nil, fmt.Errorf("blob %v not found", bh.ID.Str())
	}
	return append([]byte(nil), b...), nil
}

type c45Node struct {
	name    string
	typ     data.NodeType
	mode    os.FileMode
	content []byte
	blobs   restic.IDs
	target  string
	kids    []*c45Node
}

type c45Want struct {
	path    string
	typ     data.NodeType
	mode    os.FileMode
	content []byte
	target  string
}

// TestVerifC45: dump writes exactly the snapshot's content. Generated trees
// (multi-blob and repeated-blob files, empty files, symlinks, special files,
// nested directories) on a simulated loader whose blob loads complete in
// scheduled order and may fail; tar and zip output is parsed with the
// standard library and compared entry by entry in tree order.
func TestVerifC45(t *testing.T) {
	hx.Main(t, "C45", func(r *hx.Rec) {
		tp := r.Tape
		s := simrt.New(tp)
		r.Sim = s
		if hx.KeepAllEvents {
			s.KeepEvents = -1
		}
		s.YieldMutex = tp.Choose(2) == 0
		s.Procs = tp.Range(1, 4)
		format := []string{"tar", "zip"}[tp.Choose(2)]
		conns := uint(tp.Range(1, 5))
		st := tp.Stream()
		ld := &c45Loader{blobs: map[restic.ID][]byte{}, conns: conns, fail: map[restic.ID]bool{}}
		var blobPool []restic.ID
		newBlob := func() restic.ID {
			sz := []int{0, 1, 10, 300, 4000}[tp.Choose(5)]
			b := make([]byte, sz)
			st.Fill(b)
			id := restic.Hash(append([]byte{byte(len(blobPool))}, b...))
			ld.blobs[id] = b
			blobPool = append(blobPool, id)
			return id
		}
		for i := 0; i < 5; i++ {
			newBlob()
		}
		count := 0
		var gen func(depth int) []*c45Node
		gen = func(depth int) []*c45Node {
			var out []*c45Node
			n := tp.Range(0, 5)
			for i := 0; i < n && count < 25; i++ {
				count++
				nd := &c45Node{name: fmt.Sprintf("n%02d", i), mode: []os.FileMode{0o644, 0o600, 0o755, 0o4755 &^ 0o4000 | os.ModeSetuid}[tp.Choose(4)]}
				switch k := tp.Choose(8); {
				case k == 0 && depth < 3:
					nd.typ = data.NodeTypeDir
					nd.mode = 0o755 | os.ModeDir
					nd.kids = gen(depth + 1)
				case k == 1:
					nd.typ = data.NodeTypeSymlink
					nd.mode = 0o777 | os.ModeSymlink
					nd.target = []string{"../x", "/abs", "t a r g e t"}[tp.Choose(3)]
				case k == 2:
					nd.typ = []data.NodeType{data.NodeTypeFifo, data.NodeTypeDev, data.NodeTypeCharDev, data.NodeTypeSocket}[tp.Choose(4)]
				default:
					nd.typ = data.NodeTypeFile
					nb := tp.Range(0, 5)
					for b := 0; b < nb; b++ {
						var id restic.ID
						if tp.Choose(3) == 0 {
							id = blobPool[tp.Choose(len(blobPool))] // repeated blob
						} else {
							id = newBlob()
						}
						nd.blobs = append(nd.blobs, id)
						nd.content = append(nd.content, ld.blobs[id]...)
					}
				}
				out = append(out, nd)
			}
			return out
		}
		top := gen(0)
		// encode bottom-up into tree blobs
		var encode func(nodes []*c45Node) (restic.ID, error)
		encode = func(nodes []*c45Node) (restic.ID, error) {
			b := data.NewTreeJSONBuilder()
			for _, nd := range nodes {
				n := &data.Node{Name: nd.name, Type: nd.typ, Mode: nd.mode, Size: uint64(len(nd.content)), Content: nd.blobs, LinkTarget: nd.target, ModTime: time.Unix(1600000000, 0)}
				if nd.typ == data.NodeTypeDir {
					id, err := encode(nd.kids)
					if err != nil {
						return restic.ID{}, err
					}
					n.Subtree = &id
				}
				if err := b.AddNode(n); err != nil {
					return restic.ID{}, err
				}
			}
			buf, err := b.Finalize()
			if err != nil {
				return restic.ID{}, err
			}
			id := restic.Hash(buf)
			ld.blobs[id] = buf
			return id, nil
		}
		rootID, err := encode(top)
		if err != nil {
			r.Abort = err.Error()
			return
		}
		// expectation: pre-order
		var want []c45Want
		var walk func(prefix string, nodes []*c45Node)
		walk = func(prefix string, nodes []*c45Node) {
			for _, nd := range nodes {
				p := prefix + nd.name
				switch nd.typ {
				case data.NodeTypeDir:
					want = append(want, c45Want{path: p + "/", typ: nd.typ, mode: nd.mode})
					walk(p+"/", nd.kids)
				case data.NodeTypeFile:
					want = append(want, c45Want{path: p, typ: nd.typ, mode: nd.mode, content: nd.content})
				case data.NodeTypeSymlink:
					want = append(want, c45Want{path: p, typ: nd.typ, mode: nd.mode, target: nd.target})
				}
			}
		}
		walk("", top)
		// optional load failure of a data blob that is used
		failing := false
		if tp.Choose(4) == 0 {
			var used restic.IDs
			var collectBlobs func(nodes []*c45Node)
			collectBlobs = func(nodes []*c45Node) {
				for _, nd := range nodes {
					used = append(used, nd.blobs...)
					collectBlobs(nd.kids)
				}
			}
			collectBlobs(top)
			if len(used) > 0 {
				ld.fail[used[tp.Choose(len(used))]] = true
				failing = true
			}
		}
		r.Set("format", format)
		r.Set("entries", len(want))
		r.Set("load_failure", failing)
		simrt.Run(r.T, s, 60*time.Second, func() {
			var out bytes.Buffer
			var derr error
			s.Do("dump", nil, func() {
				tree, err := data.LoadTree(context.Background(), ld, rootID)
				if err != nil {
					derr = err
					return
				}
				d := New(format, ld, &out)
				derr = d.DumpTree(context.Background(), tree, "/")
			})
			r.SimTime = s.Elapsed()
			if s.Panic != "" {
				r.Fail("panic", "panic", "%s", s.Panic)
				return
			}
			if s.Deadlock != "" {
				r.Fail("liveness", "deadlock", "dump never finished:\n%s", s.Deadlock)
				return
			}
			if failing {
				if derr == nil {
					r.Fail("error", "load-error-swallowed", "a blob could not be loaded but the %s dump reported success", format)
				}
				return
			}
			if derr != nil {
				r.Fail("error", "dump-failed", "%s dump failed without a fault: %v", format, derr)
				return
			}
			type gotEntry struct {
				path    string
				dir     bool
				symlink bool
				reg     bool
				perm    os.FileMode
				setuid  bool
				content []byte
				target  string
			}
			var got []gotEntry
			if format == "tar" {
				tr := tar.NewReader(bytes.NewReader(out.Bytes()))
				for {
					h, err := tr.Next()
					if err == io.EOF {
						break
					}
					if err != nil {
						r.Fail("archive", "unreadable-archive", "tar output cannot be read: %v", err)
						return
					}
					b, _ := io.ReadAll(tr)
					got = append(got, gotEntry{path: h.Name, dir: h.Typeflag == tar.TypeDir, symlink: h.Typeflag == tar.TypeSymlink, reg: h.Typeflag == tar.TypeReg, perm: os.FileMode(h.Mode & 0o777), setuid: h.Mode&0o4000 != 0, content: b, target: h.Linkname})
				}
			} else {
				zr, err := zip.NewReader(bytes.NewReader(out.Bytes()), int64(out.Len()))
				if err != nil {
					r.Fail("archive", "unreadable-archive", "zip output cannot be read: %v", err)
					return
				}
				for _, f := range zr.File {
					rc, err := f.Open()
					if err != nil {
						r.Fail("archive", "unreadable-archive", "zip entry %s cannot be opened: %v", f.Name, err)
						return
					}
					b, rerr := io.ReadAll(rc)
					_ = rc.Close()
					if rerr != nil {
						r.Fail("archive", "unreadable-archive", "zip entry %s cannot be read: %v", f.Name, rerr)
						return
					}
					m := f.Mode()
					e := gotEntry{path: f.Name, dir: m.IsDir(), symlink: m&os.ModeSymlink != 0, reg: m.IsRegular(), perm: m.Perm(), setuid: m&os.ModeSetuid != 0}
					if e.symlink {
						e.target = string(b)
					} else {
						e.content = b
					}
					got = append(got, e)
				}
			}
			if len(got) != len(want) {
				var names []string
				for _, g := range got {
					names = append(names, g.path)
				}
				r.Fail("entries", "entry-count", "%s archive has %d entries %v, the tree has %d files/dirs/symlinks", format, len(got), names, len(want))
				return
			}
			for i, wnt := range want {
				g := got[i]
				if g.path != wnt.path {
					r.Fail("entries", "order-or-name", "%s entry %d is %q, want %q (tree order)", format, i, g.path, wnt.path)
					return
				}
				switch wnt.typ {
				case data.NodeTypeDir:
					if !g.dir {
						r.Fail("entries", "wrong-type", "%s entry %q is not a directory", format, g.path)
					}
				case data.NodeTypeSymlink:
					if !g.symlink || g.target != wnt.target {
						r.Fail("entries", "wrong-symlink", "%s entry %q: symlink=%v target %q, want target %q", format, g.path, g.symlink, g.target, wnt.target)
					}
				case data.NodeTypeFile:
					if !g.reg {
						r.Fail("entries", "wrong-type", "%s entry %q is not a regular file", format, g.path)
					}
					if !bytes.Equal(g.content, wnt.content) {
						r.Fail("content", "wrong-content", "%s entry %q has %d bytes that differ from the file's %d bytes", format, g.path, len(g.content), len(wnt.content))
					}
				}
				if wnt.typ != data.NodeTypeSymlink && (g.perm != wnt.mode.Perm() || g.setuid != (wnt.mode&os.ModeSetuid != 0)) {
					r.Fail("entries", "wrong-mode", "%s entry %q has permission bits %v setuid=%v, want %v setuid=%v", format, g.path, g.perm, g.setuid, wnt.mode.Perm(), wnt.mode&os.ModeSetuid != 0)
				}
			}
			// WriteNode of one multi-blob file
			for _, nd := range top {
				if nd.typ == data.NodeTypeFile {
					var fb bytes.Buffer
					var werr error
					s.Do("write-node", nil, func() {
						d := New("tar", ld, &fb)
						werr = d.WriteNode(context.Background(), &data.Node{Name: nd.name, Type: nd.typ, Content: nd.blobs, Size: uint64(len(nd.content))})
					})
					if werr != nil || !bytes.Equal(fb.Bytes(), nd.content) {
						r.Fail("content", "write-node-wrong", "WriteNode of %s wrote %d bytes (err %v), the file has %d", nd.name, fb.Len(), werr, len(nd.content))
					}
					// the same with a context that is cancelled somewhere in the middle: an error, or the complete file
					if len(nd.blobs) > 1 && !r.Failed() {
						var cb bytes.Buffer
						var cerr error
						cctx, cancel := context.WithCancel(context.Background())
						n := 1 + tp.Choose(2*len(nd.blobs)+4)
						s.Go("canceller", nil, func() {
							for i := 0; i < n; i++ {
								simrt.Park("ctl", "before-cancel", nil)
							}
							s.Count("fault:context-cancelled")
							cancel()
						})
						s.Do("write-node-cancelled", nil, func() {
							d := New("tar", ld, &cb)
							cerr = d.WriteNode(cctx, &data.Node{Name: nd.name, Type: nd.typ, Content: nd.blobs, Size: uint64(len(nd.content))})
						})
						cancel()
						if cerr == nil && !bytes.Equal(cb.Bytes(), nd.content) {
							r.Fail("content", "cancelled-dump-truncated-without-error", "the context was cancelled while %s was dumped: WriteNode returned nil after writing %d of %d bytes", nd.name, cb.Len(), len(nd.content))
						}
					}
					break
				}
			}
		})
	})
}
