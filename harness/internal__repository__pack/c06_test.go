package pack

import (
	"bytes"
	"context"
	"fmt"
	"testing"
	"time"

	"github.com/restic/restic/internal/backend"
	"github.com/restic/restic/internal/repository/crypto"
	"github.com/restic/restic/internal/restic"
	"github.com/restic/restic/internal/verif/hx"
	"github.com/restic/restic/internal/verif/simbe"
	"github.com/restic/restic/internal/verif/simrt"
)

// TestVerifC06: pack files list back exactly the blobs written into them, and
// any truncated, extended or malformed pack is rejected. Packs are written by
// the real Packer for generated blob sequences (data/tree, compressed or not,
// 0..40 blobs, around the 15-entry eager-read boundary, and in rare runs the
// exact header-entry limit and its neighbours); they are listed through
// backend.ReaderAt over the simulated store with read errors, partial and
// corrupted reads, and after at-rest truncation, extension and byte mutations
// of the header and its length field.
func TestVerifC06(t *testing.T) {
	hx.Main(t, "C06", func(r *hx.Rec) {
		tp := r.Tape
		s := simrt.New(tp)
		r.Sim = s
		if hx.KeepAllEvents {
			s.KeepEvents = -1
		}
		st := tp.Stream()
		var keyBytes [64]byte
		st.Fill(keyBytes[:])
		key := crypto.NewRandomKey()
		nBlobs := []int{1, 2, 14, 15, 16, 17, 3 + tp.Choose(38)}[tp.Choose(7)]
		limitRun := tp.Choose(300) == 0
		if limitRun {
			nBlobs = int(MaxHeaderEntries) - 1 + tp.Choose(2)
		}
		damage := tp.Choose(7) // 0: none
		readFaults := tp.Choose(4) == 0
		r.Set("blobs", nBlobs)
		r.Set("damage_kind", damage)
		r.Set("read_faults", readFaults)
		r.CaseKey = fmt.Sprint(nBlobs, damage, readFaults)
		simrt.Run(r.T, s, 120*time.Second, func() {
			var buf bytes.Buffer
			s.SetFree(true) // building the pack draws a nonce; no scheduling involved
			p := NewPacker(key, &buf)
			var want Blobs
			off := uint(0)
			for i := 0; i < nBlobs; i++ {
				t := restic.DataBlob
				if tp.Choose(3) == 0 && !limitRun {
					t = restic.TreeBlob
				}
				var id restic.ID
				st.Fill(id[:])
				ln := 33 + tp.Choose(300)
				if limitRun {
					ln = 33
				}
				ct := make([]byte, ln)
				ul := 0
				if tp.Choose(2) == 0 {
					ul = ln + tp.Choose(1000)
				}
				if _, err := p.Add(t, id, ct, ul); err != nil {
					r.Abort = "Add: " + err.Error()
					return
				}
				want = append(want, Blob{BlobHandle: restic.BlobHandle{ID: id, Type: t}, Length: uint(ln), Offset: off, UncompressedLength: uint(ul)})
				off += uint(ln)
				if p.HeaderFull() {
					r.Count("header_full_reached", 1)
					break
				}
			}
			// optionally a second packer is merged into the first one (what the packer manager does at flush
			// time), its data coming from a reader that may end early
			if !limitRun && tp.Choose(3) == 0 {
				var buf2 bytes.Buffer
				p2 := NewPacker(key, &buf2)
				n2 := tp.Range(1, 6)
				var want2 Blobs
				off2 := uint(0)
				for i := 0; i < n2; i++ {
					var id restic.ID
					st.Fill(id[:])
					ln := 33 + tp.Choose(300)
					ct := make([]byte, ln)
					st.Fill(ct)
					if _, err := p2.Add(restic.DataBlob, id, ct, 0); err != nil {
						r.Abort = "Add: " + err.Error()
						return
					}
					want2 = append(want2, Blob{BlobHandle: restic.BlobHandle{ID: id, Type: restic.DataBlob}, Length: uint(ln), Offset: off + off2})
					off2 += uint(ln)
				}
				src := buf2.Bytes()[:off2]
				short := 0
				if tp.Choose(2) == 0 {
					short = 1 + tp.Choose(int(off2))
					src = src[:int(off2)-short]
					s.Count("fault:merge-source-ends-early")
				}
				merr := p.Merge(p2, bytes.NewReader(src))
				if short > 0 {
					if merr == nil {
						r.Fail("exact-listing", "merge-accepted-short-source", "Merge of a packer with %d bytes succeeded although its data source ended %d bytes early", off2, short)
					}
					r.Count("short_merges_refused", 1)
					return
				}
				if merr != nil {
					r.Fail("exact-listing", "merge-failed", "Merge of an intact packer failed: %v", merr)
					return
				}
				want = append(want, want2...)
				off += off2
				r.Count("merged_packs", 1)
			}
			if err := p.Finalize(); err != nil {
				r.Abort = "Finalize: " + err.Error()
				return
			}
			s.SetFree(false)
			data := append([]byte(nil), buf.Bytes()...)
			hdrLen := len(data) - int(off)
			if uint(hdrLen) > MaxHeaderSize {
				r.Fail("limit", "header-exceeds-limit", "a pack with %d blobs has a header of %d bytes, above the limit %d", len(want), hdrLen, MaxHeaderSize)
			}
			// at-rest damage
			desc := "none"
			orig := append([]byte(nil), data...)
			switch damage {
			case 1:
				cut := 1 + tp.Choose(len(data)-1)
				data = data[:cut]
				desc = fmt.Sprintf("truncated to %d of %d", cut, len(orig))
			case 2:
				data = append(data, make([]byte, 1+tp.Choose(8))...)
				desc = "extended with zeros"
			case 3:
				extra := make([]byte, 1+tp.Choose(40))
				st.Fill(extra)
				data = append(data, extra...)
				desc = "extended with random bytes"
			case 4:
				pos := len(data) - 1 - tp.Choose(4)
				data[pos] ^= byte(1 << tp.Choose(8))
				desc = fmt.Sprintf("bit flipped in the length field (byte %d)", pos)
			case 5:
				pos := len(data) - 5 - tp.Choose(hdrLen-4)
				data[pos] ^= byte(1 << tp.Choose(8))
				desc = fmt.Sprintf("bit flipped in the encrypted header (byte %d)", pos)
			case 6:
				// a plausible but wrong length value
				v := uint32(tp.Choose(1 << 20))
				data[len(data)-4], data[len(data)-3], data[len(data)-2], data[len(data)-1] = byte(v), byte(v>>8), byte(v>>16), byte(v>>24)
				desc = fmt.Sprintf("length field set to %d", v)
			case 7:
				if int(off) > 0 {
					// drop the first byte of the file: everything shifts
					data = data[1:]
					desc = "first byte removed"
				}
			}
			r.Set("damage", desc)
			r.CaseKey = fmt.Sprint(nBlobs, desc, readFaults)
			r.Nontriv = true
			damaged := !bytes.Equal(data, orig)
			store := simbe.NewStore(s)
			cl := store.NewClient(s.NewProc("p", 1, "h"), 2, true)
			h := backend.Handle{Type: backend.PackFile, Name: "pack"}
			store.Put(h, data)
			if readFaults {
				cl.F = simbe.Faults{ErrBefore: 150, PartialRead: 150, CorruptRead: 150, Budget: 2}
			}
			var got Blobs
			var hs uint32
			var lerr error
			panicked := ""
			s.Do("list", nil, func() {
				defer func() {
					if p := recover(); p != nil {
						panicked = fmt.Sprint(p)
					}
				}()
				got, hs, lerr = List(key, backend.ReaderAt(context.Background(), cl, h), int64(len(data)))
			})
			if panicked != "" || s.Panic != "" {
				r.Fail("no-panic", "panic", "listing a pack (%s) panicked: %s%s", desc, panicked, s.Panic)
				return
			}
			faults := 0
			for k, v := range s.Stats() {
				if len(k) > 6 && k[:6] == "fault:" {
					faults += v
				}
			}
			same := lerr == nil && len(got) == len(want)
			if same {
				for i := range got {
					if got[i] != want[i] {
						same = false
					}
				}
			}
			switch {
			case !damaged && faults == 0:
				if lerr != nil {
					r.Fail("exact-listing", "intact-pack-rejected", "an intact pack with %d blobs was rejected: %v", len(want), lerr)
				} else if !same {
					r.Fail("exact-listing", "wrong-listing", "an intact pack with %d blobs listed %d entries that differ from what was written", len(want), len(got))
				} else if int(hs) != hdrLen {
					r.Fail("exact-listing", "wrong-header-size", "reported header size %d, the file's header has %d bytes", hs, hdrLen)
				}
			case lerr == nil && !same:
				// a damaged pack (or corrupted read) that lists "successfully" must list the truth
				r.Fail("reject-malformed", "wrong-listing-accepted", "pack (%s, read faults fired: %d) was listed without error but with %d entries that differ from the %d written", desc, faults, len(got), len(want))
			case lerr == nil && damaged && damage != 5:
				// listing the truth from a file of different length/trailer means the damage went unnoticed
				r.Fail("reject-malformed", "malformed-accepted", "pack (%s) was accepted without error", desc)
			}
			if lerr != nil {
				r.Count("rejected", 1)
			} else {
				r.Count("listed", 1)
			}
		})
	})
}
