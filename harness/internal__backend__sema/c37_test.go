package sema

import (
	"context"
	"fmt"
	"io"
	"sync"
	"testing"
	"time"

	"github.com/restic/restic/internal/backend"
	"github.com/restic/restic/internal/verif/hx"
	"github.com/restic/restic/internal/verif/simbe"
	"github.com/restic/restic/internal/verif/simrt"
)

// TestVerifC37: K clients issue Save/Load/Stat/Remove of all file types through
// the real connection-limiting wrapper over the simulated store while a
// controller freezes and unfreezes it. Monitors inside the store see every
// operation arrive and leave.
func TestVerifC37(t *testing.T) {
	hx.Main(t, "C37", func(r *hx.Rec) {
		tp := r.Tape
		s := simrt.New(tp)
		r.Sim = s
		if hx.KeepAllEvents {
			s.KeepEvents = -1
		}
		conns := uint(tp.Range(1, 4))
		nClients := tp.Range(1, 7)
		nFreeze := tp.Range(0, 3)
		nCtl := tp.Range(1, 2)
		type op struct {
			kind   int // 0 save 1 load 2 stat 3 remove
			typ    backend.FileType
			cancel int // > 0: the caller's context is cancelled after that many scheduling points
		}
		types := []backend.FileType{backend.PackFile, backend.KeyFile, backend.LockFile, backend.SnapshotFile, backend.IndexFile, backend.ConfigFile, backend.LockFile}
		plans := make([][]op, nClients)
		for c := range plans {
			n := tp.Range(1, 5)
			for k := 0; k < n; k++ {
				o := op{kind: tp.Choose(4), typ: types[tp.Choose(len(types))]}
				if tp.Choose(4) == 3 {
					o.cancel = 1 + tp.Choose(6)
				}
				plans[c] = append(plans[c], o)
			}
		}
		r.Set("connections", conns)
		r.Set("clients", nClients)
		r.Set("freezes", nFreeze)
		r.Set("freezers", nCtl)
		r.Set("plans", fmt.Sprint(plans))
		simrt.Run(r.T, s, 60*time.Second, func() {
			store := simbe.NewStore(s)
			cl := store.NewClient(&simrt.Proc{Name: "p"}, conns, true)
			// some files to load/stat/remove
			for _, ft := range types {
				for i := 0; i < 3; i++ {
					store.Put(backend.Handle{Type: ft, Name: fmt.Sprintf("f%d", i)}, []byte("content"))
				}
			}
			be := NewBackend(cl)
			fb := be.(backend.FreezeBackend)
			var mu sync.Mutex
			frozen := false
			maxInFlight := 0
			invokedLock := map[string]bool{} // goroutine name -> a lock-file op was invoked and has not reached the store yet
			store.OnArrive = append(store.OnArrive, func(c *simbe.Client, opn string, h backend.Handle) {
				mu.Lock()
				defer mu.Unlock()
				if h.Type == backend.LockFile {
					delete(invokedLock, simrt.GName())
					return
				}
				if c.InFlight > maxInFlight {
					maxInFlight = c.InFlight
				}
				if uint(c.InFlight) > conns {
					r.Fail("limit", "limit-exceeded", "%d non-lock operations in flight at the wrapped backend, limit is %d (arriving: %s %v)", c.InFlight, conns, opn, h)
				}
				if frozen {
					r.Fail("freeze", "op-started-while-frozen", "%s %v reached the wrapped backend while the backend was frozen", opn, h)
				}
			})
			s.AddMonitor(func() {
				mu.Lock()
				defer mu.Unlock()
				for name := range invokedLock {
					if !s.IsParked(name) {
						r.Fail("lock-ops", "lock-op-blocked", "a lock-file operation of %s is blocked inside the wrapper (frozen=%v, %d/%d slots taken)", name, frozen, cl.InFlight, conns)
					}
				}
			})
			ctx := context.Background()
			for ci := range plans {
				ci := ci
				s.Go(fmt.Sprintf("c%d", ci), nil, func() {
					for k, o := range plans[ci] {
						h := backend.Handle{Type: o.typ, Name: fmt.Sprintf("f%d", k%3)}
						if o.typ == backend.LockFile {
							mu.Lock()
							invokedLock[simrt.GName()] = true
							mu.Unlock()
						}
						ctx := ctx
						if o.cancel > 0 {
							// somebody cancels this caller's context while the operation waits or runs
							cctx, cancel := context.WithCancel(ctx)
							ctx = cctx
							n := o.cancel
							s.Go(fmt.Sprintf("cancel%d.%d", ci, k), nil, func() {
								for i := 0; i < n; i++ {
									simrt.Park("ctl", "before-cancel", nil)
								}
								s.Count("fault:caller-context-cancelled")
								cancel()
							})
						}
						switch o.kind {
						case 0:
							h.Name = fmt.Sprintf("new-%d-%d", ci, k)
							_ = be.Save(ctx, h, backend.NewByteReader([]byte("data"), cl.Hasher()))
						case 1:
							_ = be.Load(ctx, h, 0, 0, func(rd io.Reader) error { _, err := io.ReadAll(rd); return err })
						case 2:
							_, _ = be.Stat(ctx, h)
						case 3:
							_ = be.Remove(ctx, h)
						}
					}
				})
			}
			// one or two controllers freeze and unfreeze; with two, the freeze periods queue up behind each other
			frozenBy := 0
			for ctl := 0; ctl < nCtl && nFreeze > 0; ctl++ {
				ctl := ctl
				s.Go(fmt.Sprintf("ctl%d", ctl), nil, func() {
					for i := 0; i < nFreeze; i++ {
						simrt.Park("ctl", "before-freeze", nil)
						fb.Freeze()
						// everything that passed the gate before Freeze returned has reached the
						// store by the next quiescence; only then do we call the backend frozen
						simrt.Park("ctl", "frozen", nil)
						mu.Lock()
						frozenBy++
						frozen = frozenBy > 0
						mu.Unlock()
						n := 1 + i
						for j := 0; j < n; j++ {
							simrt.Park("ctl", "hold", nil)
						}
						mu.Lock()
						frozenBy--
						frozen = frozenBy > 0
						mu.Unlock()
						fb.Unfreeze()
					}
				})
			}
			s.Loop()
			r.SimTime = s.Elapsed()
			r.Count("max_in_flight_seen", maxInFlight)
			if s.Panic != "" {
				r.Fail("panic", "panic", "%s", s.Panic)
			}
			if s.Deadlock != "" {
				r.Fail("liveness", "deadlock", "operations never finished\n%s", s.Deadlock)
			}
		})
	})
}
